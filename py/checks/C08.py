"""C08 — Loads act as the series circuit elements they describe."""
import random, re
from vlib import *
import stage_lin

HEADER = '''From Coq Require Import ZArith List Bool PrimFloat.
Import ListNotations.
From PM Require Import Base.Num Base.FNum Base.Cplx Gen.Extracted Model.Loads Corr.LoadDriver.
Set Printing Depth 10000000.
Set Printing Width 200.
'''
def F(h):
    return fhex(float.fromhex(h))
def B(b):
    return 'true' if b else 'false'
def opt(h):
    return fhex(0.0) if h is None else F(h)

def coq_item(it):
    cls = it['cls']
    if cls == 'Impedance_Load':
        return None
    if cls == 'Laplace_Load':
        # the object's lists are already padded; the model pads again (no-op)
        return 'Eval vm_compute in (laplace_case %s %s %s).' % (F(it['f']), coq_list([F(x) for x in it['a']]), coq_list([F(x) for x in it['b']]))
    if cls == 'Series_RLC_Load':
        r, l, c = it['rlc']
        return 'Eval vm_compute in (rlc_case %s %s %s %s).' % (F(it['f']), opt(r), opt(l), opt(c))
    if cls == 'Trap_Load':
        r, l, c = it['rlc']
        return 'Eval vm_compute in (trap_case %s %s %s %s).' % (F(it['f']), opt(r), opt(l), opt(c))
    omg = 2 * 3.141592653589793 * float.fromhex(it['f']) * 1e6
    if cls == 'Skin_Effect_Load':
        hs = []
        for h in it['halves']:
            has = 'cond' in h
            be = h.get('bessel', [0.0.hex(), 0.0.hex()])
            hs.append('(skin_h %s %s %s %s %s %s %s %s)' % (fhex(omg), F(h['len']), B(h['image']), B(has),
                      F(h['cond']) if has else fhex(1.0), F(h['r_orig']), F(be[0]), F(be[1])))
        return 'Eval vm_compute in (skin_case %s %s %s).' % (fhex(omg), hs[0], hs[1])
    if cls == 'Insulation_Load':
        hs = []
        for h in it['halves']:
            has = 'coat' in h
            co = h.get('coat', [1.0.hex(), 1.0.hex()])
            hs.append('(ins_h %s %s %s %s %s %s)' % (F(h['len']), B(h['image']), B(has), F(co[0]), F(co[1]), F(h['r_orig'])))
        return 'Eval vm_compute in (ins_case %s %s %s).' % (fhex(omg), hs[0], hs[1])
    return None

def run_dload(chk, rng, ncases):
    cases = stage_lin.gen_cases(rng, ncases, grounds=(None, None, 'ideal', 'ideal', 'real'))
    # three-wire chains in every combination of directions with distributed loads on one or two of the wires
    for c_ in probe_cases(rng):
        for sub, kind in (((1,), 'skin'), ((2,), 'ins'), ((1, 3), 'skin'), ((3,), 'ins')):
            sp = json.loads(json.dumps(c_['spec']))
            sp['loads'] = [dict(kind='skin', tag=t, cond=3e5 * t) if kind == 'skin' else dict(kind='ins', tag=t, radius_factor=1.5 + 0.2 * t, eps=2.0 + t) for t in sub]
            cases.append(dict(id=3 * 10 ** 6 + len(cases), seed=rng.randrange(10 ** 9), spec=sp, fixed_loads=True))
    shards = [cases[k::NCPU] for k in range(NCPU) if cases[k::NCPU]]
    res = run_workers('dload', [dict(cases=s) for s in shards])
    results = []
    for ok, r in res:
        if not ok:
            chk.tie_broken('correspondence', 'dload', 'real code could not be run: ' + str(r)[-800:])
            continue
        results += r['results']
    lines, expect = [], []
    nitems = 0
    for r in results:
        if 'error' in r:
            report_error(chk, 'dload', r)
            continue
        kinds = sorted(set(it['cls'] for it in r['items']))
        chk.add_case(json.dumps(r['spec'], sort_keys=True), len(kinds) > 1,
                     sample=dict(family=r['spec']['family'], load_classes=kinds, items=len(r['items'])))
        for it in r['items']:
            nitems += 1
            if it['cls'] == 'Impedance_Load':
                if it['z'] != it['param']:
                    chk.tie_broken('correspondence', 'dload', 'Impedance_Load.impedance differs from its parameter')
                continue
            l = coq_item(it)
            if l:
                lines.append(l); expect.append((r, it, complex(float.fromhex(it['z'][0]), float.fromhex(it['z'][1]))))
        for q in r['requiv']:
            lines.append('Eval vm_compute in (requiv_case %s %s %s).' % (F(q[0]), F(q[1]), F(q[2])))
            expect.append((r, dict(cls='r_equiv'), complex(float.fromhex(q[3]), 0)))
        for q in r['media']:
            lines.append('Eval vm_compute in (medium_case %s %s %s %s).' % (B(q[0]), F(q[1]), F(q[2]), F(q[3])))
            expect.append((r, dict(cls='medium'), complex(float.fromhex(q[4][0]), float.fromhex(q[4][1]))))
    ok_model = all(vo_ok(f) for f in ('Corr/LoadDriver.v', 'Model/Loads.v', 'Gen/Extracted.v'))
    ncmp = nbad = 0
    if ok_model and lines:
        per = max(1, (len(lines) + NCPU - 1) // NCPU)
        groups = [(lines[k:k + per], expect[k:k + per]) for k in range(0, len(lines), per)]
        outs = coq_evals([('dl_%d_%d' % (os.getpid(), gi), HEADER + '\n'.join(g[0]) + '\n') for gi, g in enumerate(groups)])
        for (ls, ex), (rc, out) in zip(groups, outs):
            blocks = re.findall(r'(?s)=\s*(\[.*?\])\s*:\s*list float', out)
            if rc != 0 or len(blocks) != len(ls):
                chk.tie_broken('correspondence', 'dload', 'model evaluation failed: ' + out[-500:])
                continue
            for (r, it, want), b in zip(ex, blocks):
                v = parse_floats(b)
                got = complex(v[0], v[1] if len(v) > 1 else 0.0)
                ncmp += 1
                if not abs(got - want) <= 2e-9 * max(abs(want), 1e-300) and not (want != want and got != got):
                    nbad += 1
                    chk.tie_broken('correspondence', 'dload', '%s on pulse %s: code %r, model %r' % (it['cls'], it.get('pulse'), want, got))
    elif not ok_model:
        chk.tie_broken('correspondence', 'dload', 'model (Model/Loads.v, Corr/LoadDriver.v) does not compile')
    chk.stages['dload'] = dict(cases=len(cases), load_pulse_pairs=nitems, compared=ncmp, disagreements=nbad)
    attach_stage(chk, [r for r in results if 'error' not in r])

ATTACH_HEADER = '''From Coq Require Import List Bool Arith.
Import ListNotations.
From PM Require Import Model.Attach.
Set Printing Depth 10000000. Set Printing Width 1000000.
Definition on_lists (L : list nat) (n : nat) (ps : list (nat * nat * nat)) : list (list nat) :=
  map (fun t => match t with (o, g0, g1) => filter (attached (fun g => existsb (Nat.eqb g) L) (mkAP o g0 g1)) (seq 0 n) end) ps.
'''
def attach_stage(chk, results):
    """Model/Attach.v evaluated in Coq on the real pulse layout and the set of loaded objects: the objects whose load list a
    pulse is on must be the real ones, each pulse at most once per list"""
    items = [(r, k, a) for r in results if r.get('attach') for k, a in r['attach'].items() if a['loaded']]
    if not vo_ok('Model/Attach.v'):
        chk.tie_broken('correspondence', 'attach', 'model (Model/Attach.v) does not compile'); return
    if not items:
        chk.stages['attach'] = dict(models=0); return
    body = ATTACH_HEADER + '\n'.join('Eval vm_compute in (on_lists %s %d%%nat %s).' % (
        coq_list(['%d%%nat' % g for g in a['loaded']]), a['nobj'],
        coq_list(['(%d%%nat, %d%%nat, %d%%nat)' % (p[0], p[1], p[2]) for p in a['pulses']])) for r, k, a in items) + '\n'
    rc, out = coq_eval('attach_%d' % os.getpid(), body)
    blocks = re.findall(r'(?s)=\s*(\[.*?\])\s*:\s*list \(list nat\)', out)
    if rc != 0 or len(blocks) != len(items):
        chk.tie_broken('correspondence', 'attach', 'model evaluation failed: ' + out[-500:]); return
    nbad = npul = junc = 0
    for (r, k, a), b in zip(items, blocks):
        rows = [[int(x) for x in re.findall(r'\d+', row)] for row in re.findall(r'\[([^\[\]]*)\]', b)]
        for p, mrow in zip(a['pulses'], rows):
            npul += 1
            if p[1] != p[2]: junc += 1
            if sorted(mrow) != p[3] or p[4] > 1:
                nbad += 1
                chk.notes.setdefault('failing_specs', []).append(r['spec'])
                chk.tie_broken('correspondence', 'attach', '%s loads, loaded objects %r: pulse owned by object %d with halves on objects %d / %d is on the lists of %r (multiplicity %d), the model says %r'
                               % (k, a['loaded'], p[0], p[1], p[2], p[3], p[4], sorted(mrow)))
                break
    chk.stages['attach'] = dict(models=len(items), pulses=npul, junction_pulses=junc, disagreements=nbad)

def probe_cases(rng):
    """three-wire chains in every combination of wire directions (which end of the later wire meets the earlier one),
    free space and grounded foot: the per-object distributed-load clause is checked for EVERY subset of loaded wires"""
    import gen
    P = [[0.0, 0.0, 0.0], [0.3, 0.1, 3.0], [2.2, 0.4, 4.1], [2.5, 2.6, 5.9]]
    out = []
    for k in range(8):
        for ground in (None, []):
            wires = []
            for i in range(3):
                a, b = (P[i], P[i + 1]) if not (k >> i) & 1 else (P[i + 1], P[i])
                off = 0.0 if ground is not None else 7.0
                wires.append(gen.wire(4, [a[0], a[1], a[2] + off], [b[0], b[1], b[2] + off], 0.002, tag=i + 1))
            out.append(dict(id=10 ** 6 + len(out), seed=rng.randrange(10 ** 9), probe=True,
                            spec=dict(f=20.0, wires=wires, media=ground, family='probe-chain-%d%s' % (k, 'g' if ground is not None else ''),
                                      tagmode='explicit', sources=[], loads=[])))
    return out

def run_oracle(chk, rng, ncases):
    cases = probe_cases(rng) + stage_lin.gen_cases(rng, ncases)
    rp = replay_input()
    if rp and rp['kind'] == 'spec':
        cases.insert(0, dict(id=2 * 10 ** 6, seed=1, spec=json.loads(json.dumps(dict(rp['value'], sources=[], loads=[]))), probe=rp['value'].get('family', '').startswith('probe')))
    shards = [cases[k::NCPU] for k in range(NCPU) if cases[k::NCPU]]
    res = run_workers('dload.oracle', [dict(cases=s) for s in shards])
    n = 0
    for ok, r in res:
        if not ok:
            chk.tie_broken('oracle', 'c08', 'real code could not be run: ' + str(r)[-600:])
            continue
        for x in r['results']:
            if 'error' in x:
                report_error(chk, 'c08-oracle', x)
                continue
            n += 1
            chk.add_case('or:' + json.dumps(x['spec'], sort_keys=True), True,
                         sample=dict(oracle='c08', family=x['spec']['family'], feed_grounded=x['feed_grounded']))
            for b in x['bad']:
                chk.violation(dict(stage='c08-oracle', what=b.split(':')[0][:50]), b, x['spec'])
    chk.stages['c08-oracle'] = dict(cases=n)

def run(tier, seed):
    chk = Check('C08', tier, seed)
    chk.rule = ('generated antennas (free space / ideal / real ground, junctions, grounded ends) carrying lumped loads of every class '
                '(impedance, RLC with missing members, trap, Laplace) and skin-effect / insulation loads on all or some wires; '
                'non-trivial = more than one load class; distinct by full spec')
    chk.assumptions = ['scipy.special.jv trusted for the Bessel ratio handed to the model',
                       'Z0 nonsingular and non-zero feed currents are explicit hypotheses of C08_feed_load_adds',
                       'skin-effect limit for unbounded conductivity is checked by the search oracle (sigma = 1e30), not proved']
    standard_front(chk, 'Props/C08.v',
                   needs_items=('load_diag', 'rhs_entry', 'src_impedance', 'laplace_imp', 'rlc_coeffs', 'trap_coeffs',
                                'ins_zins', 'ins_half', 'r_equiv', 'skin_zint', 'cond_of_res'),
                   extra_vo=('Proofs/Loads.v', 'Proofs/Circuit.v', 'Proofs/Distributed.v', 'Model/Loads.v', 'Corr/LoadDriver.v'))
    rng = random.Random(seed)
    out, errs = stage_lin.run_stage(chk, rng, 32 if tier == 'quick' else 1200)
    for r, o, mt in out:
        chk.add_case(json.dumps(r['spec'], sort_keys=True), len(o['att']) > 0)
    for r in errs:
        report_error(chk, 'lin', r)
    run_dload(chk, rng, 32 if tier == 'quick' else 1200)
    nor = 16 if (tier == 'quick' and not chk.broken) else (48 if tier == 'quick' else 800)
    run_oracle(chk, rng, nor)
    return chk.finish()
