"""C19 — Report text faithfully carries the computed values."""
from checks.zcommon import *
import stage_rep, stage_topo

def run(tier, seed):
    chk = Check('C19', tier, seed)
    chk.rule = ('format_float: binary64 values of either sign, magnitudes 1e-30..1e12, both modes, with families for powers of ten and '
                'their neighbours, rounding ties, carries across a power of ten, 0.1, zeros, large integers; compared character by character '
                'with the Coq model; non-trivial = non-zero, distinct by (value, mode). Reports: random solved antennas (several sources, '
                'source voltages scaled over 14 decades, all load kinds, all grounds) with far-field (dB and V/m) and near-field tables; every '
                'number of every table is re-read and compared with the computed value; row counts per block are compared with the model')
    chk.assumptions = ["CPython's '% .Nf' and '% e' are correctly rounded (round-half-even on the exact binary value); np.log by Base/FloatLib.v",
                       'the character-level reader of Proofs/FormatT.v is proved to return rep_value on every rendered text and is compared with Python on the real texts; '
                       'PARTIAL: magnitude / phase agreement and the use of the formatter by each table are checked by the oracle on real reports']
    standard_front(chk, 'Props/C19.v', needs_items=('nf_peak',), extra_vo=('Proofs/PeakP.v', 'Model/Env.v', 'Proofs/EnvP.v', 'Model/Conn.v', 'Proofs/ConnP.v', 'Corr/TopoDriver.v', 'Model/Format.v', 'Proofs/FormatP.v', 'Proofs/FormatR.v', 'Proofs/FormatT.v', 'Proofs/ReportS.v', 'Corr/FmtDriver.v'))
    rng = random.Random(seed)
    q = tier == 'quick'
    stage_rep.run_fmt(chk, rng, 4000 if q else 240000)
    stage_rep.run_env(chk, random.Random(seed + 19), 60 if q else 2000)
    stage_topo.run_conn(chk, random.Random(seed + 191), 60 if q else 1500)
    cases = [dict(id=i, seed=rng.randrange(10 ** 9), spec=gen.gen_antenna(rng, ground=rng.choice((None, 'ideal', 'real'))))
             for i in range(48 if q else 1920)]
    shards = [cases[k::NCPU] for k in range(NCPU) if cases[k::NCPU]]
    res = run_workers('rep.c19', [dict(cases=s) for s in shards])
    n = sk = 0
    for ok, r in res:
        if not ok:
            chk.tie_broken('oracle', 'c19-oracle', 'real code could not be run: ' + str(r)[-600:]); continue
        for x in r['results']:
            if 'error' in x:
                if x['error']['exception'] == 'ValueError' and x['error'].get('in_repo'):
                    sk += 1; continue
                report_error(chk, 'c19-oracle', x); continue
            if x.get('skipped'):
                sk += 1; continue
            n += 1
            chk.add_case('rep:' + json.dumps(x['spec'], sort_keys=True), True, sample=dict(oracle='c19', family=x['spec']['family'], sources=len(x['spec']['sources'])))
            seen = set()
            for b in x['bad']:
                head = b.split(':')[0]
                if head.startswith('far-field V/m table prints fewer digits'):
                    sig = dict(stage='c19-oracle', table='far-field V/m', what='layout precision')
                else:
                    sig = dict(stage='c19-oracle', what=re.sub(r'[-\d.()]+', '#', head)[:60])
                key = json.dumps(sig, sort_keys=True)
                if key in seen: continue
                seen.add(key)
                chk.violation(sig, b, x['spec'])
    chk.stages['c19-oracle'] = dict(reports=n, skipped_outside_domain=sk)
    return chk.finish()
