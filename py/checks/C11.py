"""C11 — Real ground changes only the far field, consistently with its limits."""
from checks.ffcommon import *

def run(tier, seed):
    chk = Check('C11', tier, seed)
    chk.rule = ('generated antennas over 1-3 real media (linear / circular boundary, radial screens, lowered media) for the far-field '
                'correspondence; the oracle compares real-ground against ideal-ground runs, splits media, appends far media and climbs '
                'a conductivity ladder; non-trivial = more than one pulse; distinct by full spec')
    chk.assumptions = ['"currents identical to ideal ground" is decided on the real code by the oracle (bit-identical matrix, 1e-12 currents); '
                       'the model states it structurally (solve layer takes booleans only)',
                       'the sigma -> infinity limit is measured on a conductivity ladder, not proved']
    standard_front(chk, 'Props/C11.v', needs_items=('medium_imp', 'ff_f3', 'ff_theta', 'ff_phi'),
                   extra_vo=('Model/FarField.v', 'Proofs/Media.v', 'Corr/FFDriver.v'))
    rng = random.Random(seed)
    ff_cases(chk, rng, 40 if tier == 'quick' else 1600, ('real',))
    nor = 12 if (tier == 'quick' and not chk.broken) else (40 if tier == 'quick' else 640)
    run_oracle(chk, rng, nor, 'ff.c11_oracle', 'c11-oracle', ('real',),
               probes=[os.path.join(ROOT, 'probes', f) for f in ('C11-terraces-linear.json', 'C11-terraces-circular.json', 'C11-radials-three-media.json')])
    return chk.finish()
