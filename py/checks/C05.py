"""C05"""
from checks.zcommon import *

def run(tier, seed):
    chk = Check('C05', tier, seed)
    chk.rule = ('antennas in free space (any rotation about three axes, translations up to 30 wavelengths) and over ideal ground (rotation about z, horizontal shifts), scale factors 0.01..100, each requested through the options and written into the coordinates; lumped frequency-independent loads' + '; non-trivial = every case; distinct by full spec')
    chk.assumptions = ["PARTIAL: invariance of the assembled currents / impedances / pattern is measured at the property's tolerance schedule; proved are the invariances of the potential integral, the isometry and order of rotations, the scaling of lengths", 'the matrix fill is tied to Model/ZMatrix.v entry by entry (stage zmat)']
    standard_front(chk, 'Props/C05.v', needs_items=('fset',),
                   extra_vo=('Model/Kernel.v', 'Model/ZMatrix.v', 'Model/Topology.v', 'Proofs/KernelP.v', 'Proofs/ZMatrixP.v', 'Corr/ZDriver.v', 'Gen/Tables.v'))
    rng = random.Random(seed)
    q = tier == 'quick'
    zmat_cases(chk, rng, 32 if q else 1600, (None, None, 'ideal'))
    # a frequency step across the thin / thick wire limit (radius 1e-4 wavelengths): always tried
    for f1, f2 in ((10.0, 20.0), (20.0, 10.0)):
        chk.notes.setdefault('failing_specs', []).append(dict(
            f=f2, pre_factor=f1 / f2, media=None, family='probe-sweep-thin-thick', tagmode='none', sources=[], loads=[], wires=[
                gen.wire(9, [0.0, 0.0, 0.0], [0.0, 3.1, 0.4], 0.002), gen.wire(8, [0.0, 3.1, 0.4], [2.2, 5.0, 1.0], 0.002)]))
    # fat tapered wires (the 2.5 radii limit governs the shortest segment): scaling has to scale that limit too
    for kind in (1, 2, 3):
        chk.notes.setdefault('failing_specs', []).append(dict(f=14.0, media=None, family='probe-fat-taper', tagmode='explicit', sources=[], loads=[],
            wires=[gen.wire(14, [0.3, -2.0, 1.0], [3.1, 6.5, 4.2], 0.02, tag=1, taper=[kind, None, None])]))
    nor = 24 if (q and not chk.broken) else (64 if q else 1600)
    run_oracle(chk, rng, nor, 'zor.c05', 'c05-oracle', (None, None, 'ideal'))
    return chk.finish()
