import random
from vlib import *
import stage_lin, stage_ff

import re
def run_oracle(chk, rng, ncases, task, name, grounds, probes=()):
    cases = stage_lin.gen_cases(rng, ncases, grounds=grounds)
    rp = replay_input()
    if rp and rp['kind'] == 'spec':
        cases.insert(0, dict(id=2 * 10 ** 6, seed=1, spec=json.loads(json.dumps(rp['value'])), fixed_sources=bool(rp['value'].get('sources'))))
    for k, f in enumerate(probes):
        # inputs of recorded findings are always exercised
        cases.append(dict(id=10 ** 6 + k, seed=1, spec=json.load(open(f)), fixed_sources=True))
    shards = [cases[k::NCPU] for k in range(NCPU) if cases[k::NCPU]]
    res = run_workers(task, [dict(cases=s) for s in shards])
    n = skipped = 0
    stats = []
    for ok, r in res:
        if not ok:
            chk.tie_broken('oracle', name, 'real code could not be run: ' + str(r)[-600:])
            continue
        for x in r['results']:
            if 'error' in x:
                chk.violation(dict(stage=name, exception=x['error']['exception'], raised_in=x['error']['raised_in']),
                              'real code raised %s: %s' % (x['error']['exception'], x['error']['message']), x.get('spec'))
                continue
            if x.get('skipped'):
                skipped += 1
                continue
            n += 1
            if 'imbalance' in x:
                stats.append(x['imbalance'])
            chk.add_case('or:' + json.dumps(x['spec'], sort_keys=True), True,
                         sample=dict(oracle=name, family=x['spec']['family'],
                                     env='free' if x['spec']['media'] is None else ('ideal' if not x['spec']['media'] else 'real')))
            for b in x['bad']:
                sig = dict(stage=name, what=re.sub(r'-?\d+(\.\d+)?', '#', b.split(':')[0])[:48])
                for fk, fv in (x.get('features') or {}).items():
                    if fv:
                        sig[fk] = True          # known findings match on a subset of the signature
                chk.violation(sig, b, x['spec'])
    chk.stages[name] = dict(cases=n, skipped_outside_domain=skipped)
    if stats:
        chk.stages[name]['imbalance_min_max_percent'] = [round(100 * min(stats), 3), round(100 * max(stats), 3)]

def ff_cases(chk, rng, n, grounds):
    good, errs = stage_ff.run_stage(chk, rng, n, grounds=grounds)
    for r in good:
        e = r['obs']['env']
        chk.add_case(json.dumps(r['spec'], sort_keys=True), len(r['obs']['pulses']) > 1,
                     sample=dict(family=r['spec']['family'], pulses=len(r['obs']['pulses']),
                                 env='real' if e['real'] else ('ideal' if e['ground'] else 'free'), zen=r['obs']['zen'], azi=r['obs']['azi']))
    for r in errs:
        report_error(chk, 'ff', r)
