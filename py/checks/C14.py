"""C14 — Results depend only on the inputs: no history, no run-to-run variation."""
import random
from vlib import *
import stage_lin, gen
from checks import C08

def collect(chk, task, name, cases, payload_extra=None, sample_fn=None):
    shards = [cases[k::NCPU] for k in range(NCPU) if cases[k::NCPU]]
    res = run_workers(task, [dict(cases=s, **(payload_extra or {})) for s in shards])
    n = sk = 0
    for ok, r in res:
        if not ok:
            chk.tie_broken('oracle', name, 'real code could not be run: ' + str(r)[-600:])
            continue
        for x in r['results']:
            if 'error' in x:
                if x['error']['exception'] == 'ValueError' and x['error'].get('in_repo'):
                    sk += 1; continue
                report_error(chk, name, x); continue
            if x.get('skipped'):
                sk += 1; continue
            n += 1
            chk.add_case(name + ':' + json.dumps(x['spec'], sort_keys=True), True, sample=sample_fn(x) if sample_fn else None)
            for b in x['bad']:
                chk.violation(dict(stage=name, what=b.split(':')[0][:40].rstrip('0123456789. ')), b, dict(spec=x['spec'], ops=x.get('ops')))
    chk.stages[name] = dict(cases=n, skipped=sk)

def run(tier, seed):
    chk = Check('C14', tier, seed)
    chk.rule = ('(hist) random sequences of 3-9 operations (frequency changes, compute once or twice, far field, near field) on one real '
                'object carrying lumped, skin-effect and insulation loads, then a final frequency, compared with a fresh object; (sweep) '
                'main() sweeps of 2-4 steps against fresh single-frequency runs, text compared from SOURCE DATA on; (procs) one command '
                'line with loads covering several objects in 4 fresh processes, report and option file byte-compared; distinct by spec+ops')
    chk.assumptions = ['BLAS / thread scheduling non-determinism is runtime behaviour outside the model (single-threaded BLAS is forced in the workers)',
                       'the cache state machine abstracts what is cached (zint per frequency, zins) and when it is cleared; that abstraction is '
                       'what the hist stage and the two-frequency dload stage check against the real object']
    standard_front(chk, 'Props/C14.v', needs_items=('skin_zint', 'ins_zins', 'ins_half'),
                   extra_vo=('Model/History.v', 'Proofs/HistoryP.v', 'Corr/LoadDriver.v'))
    rng = random.Random(seed)
    C08.run_dload(chk, rng, 16 if tier == 'quick' else 800)
    q = tier == 'quick'
    collect(chk, 'hist', 'hist', stage_lin.gen_cases(rng, 32 if q else 1600),
            sample_fn=lambda x: dict(stage='hist', ops=x['ops'][:6], load_classes=x['kinds']))
    collect(chk, 'hist.sweep', 'sweep', stage_lin.gen_cases(rng, 16 if q else 480),
            sample_fn=lambda x: dict(stage='sweep', steps=x['steps'], load_kinds=x['kinds']))
    pc = [dict(id=i, seed=rng.randrange(10 ** 9), spec=gen.gen_antenna(rng, family=rng.choice(['star', 'chain', 'loop']), tags=rng.choice(['none', 'gaps', 'perm'])))
          for i in range(8 if q else 192)]
    collect(chk, 'hist.procs', 'procs', pc, payload_extra=dict(repeats=4 if q else 8),
            sample_fn=lambda x: dict(stage='procs', objects=x['nobj'], rc=x['rc']))
    return chk.finish()
