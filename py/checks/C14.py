"""C14 — Results depend only on the inputs: no history, no run-to-run variation."""
import random
from vlib import *
import stage_lin, gen
from checks import C08

def collect(chk, task, name, cases, payload_extra=None, sample_fn=None):
    shards = [cases[k::NCPU] for k in range(NCPU) if cases[k::NCPU]]
    res = run_workers(task, [dict(cases=s, **(payload_extra or {})) for s in shards])
    n = sk = 0
    for ok, r in res:
        if not ok:
            chk.tie_broken('oracle', name, 'real code could not be run: ' + str(r)[-600:])
            continue
        for x in r['results']:
            if 'error' in x:
                if x['error']['exception'] == 'ValueError' and x['error'].get('in_repo'):
                    sk += 1; continue
                report_error(chk, name, x); continue
            if x.get('skipped'):
                sk += 1; continue
            n += 1
            chk.add_case(name + ':' + json.dumps(x['spec'], sort_keys=True), True, sample=sample_fn(x) if sample_fn else None)
            for b in x['bad']:
                chk.violation(dict(stage=name, what=b.split(':')[0][:40].rstrip('0123456789. ')), b, dict(spec=x['spec'], ops=x.get('ops')))
    chk.stages[name] = dict(cases=n, skipped=sk)
    return [x for ok, r in res if ok for x in r['results'] if 'error' not in x and not x.get('skipped')]

SESSION_HEADER = '''From Coq Require Import List Bool Arith.
Import ListNotations.
From PM Require Import Model.Session.
Set Printing Depth 10000000. Set Printing Width 1000000.
Definition obs (l0 : list (nat * nat)) (ops : list (sop nat nat)) : nat * list nat :=
  let s := srun nat nat Faithful (fresh_session nat nat 0 l0) ops in (s_loads s, map fst (s_rhs s)).
'''
def session_stage(chk, results):
    """the operation sequences run on the real objects, run on Model/Session.v inside Coq: number of times the loads
    sit on the matrix in memory and the non-zero positions of the right-hand side must be the model's"""
    if not vo_ok('Model/Session.v'):
        chk.tie_broken('correspondence', 'session', 'model (Model/Session.v) does not compile'); return
    items = [x for x in results if 'rhs_nz' in x]
    def cops(x):
        out = []; src0 = None
        for o in x['ops']:
            if o[0] == 'setf': out.append('SSetF 1')
            elif o[0] in ('compute',): out.append('SCompute')
            elif o[0] == 'compute2': out += ['SCompute', 'SCompute']
            elif o[0] == 'resrc': out.append('SSources %s' % coq_list(['(%d, 1)' % p for p in o[1]]))
            else: out.append('SField')
        return coq_list(out)
    body = SESSION_HEADER + '\n'.join('Eval vm_compute in (obs %s %s).' % (coq_list(['(%d, 1)' % p for p in x['src0']]), cops(x)) for x in items) + '\n'
    rc, out = coq_eval('session_%d' % os.getpid(), body)
    blocks = re.findall(r'(?s)=\s*\((\d+),\s*(\[[^\]]*\])\)', out)
    if rc != 0 or len(blocks) != len(items):
        chk.tie_broken('correspondence', 'session', 'model evaluation failed: ' + out[-500:]); return
    nbad = 0
    for x, (nl, rl) in zip(items, blocks):
        mrhs = sorted(set(int(v) for v in re.findall(r'\d+', rl)))
        # sources of 0 V leave a zero entry; the model lists every registered source
        want_rhs = sorted(set(x['rhs_nz']) | (set(mrhs) - set(x['src_pulses'])))
        if x['load_mult'] is not None and abs(x['load_mult'] - int(nl)) > 1e-6:
            nbad += 1
            chk.tie_broken('correspondence', 'session', 'after %r the loads sit %.6g times on the matrix in memory, the model says %s' % (x['ops'], x['load_mult'], nl))
        if want_rhs != mrhs:
            nbad += 1
            chk.tie_broken('correspondence', 'session', 'after %r the right-hand side is non-zero at %r, the model says %r' % (x['ops'], x['rhs_nz'], mrhs))
    chk.stages['session'] = dict(sessions=len(items), disagreements=nbad)

def run(tier, seed):
    chk = Check('C14', tier, seed)
    chk.rule = ('(hist) random sequences of 3-9 operations (frequency changes, compute once or twice, far field, near field) on one real '
                'object carrying lumped, skin-effect and insulation loads, then a final frequency, compared with a fresh object; (sweep) '
                'main() sweeps of 2-4 steps against fresh single-frequency runs, text compared from SOURCE DATA on; (procs) one command '
                'line with loads covering several objects in 4 fresh processes, report and option file byte-compared; distinct by spec+ops')
    chk.assumptions = ['BLAS / thread scheduling non-determinism is runtime behaviour outside the model (single-threaded BLAS is forced in the workers)',
                       'the cache state machine abstracts what is cached (zint per frequency, zins) and when it is cleared; that abstraction is '
                       'what the hist stage and the two-frequency dload stage check against the real object']
    standard_front(chk, 'Props/C14.v', needs_items=('skin_zint', 'ins_zins', 'ins_half'),
                   extra_vo=('Model/History.v', 'Proofs/HistoryP.v', 'Model/Session.v', 'Proofs/SessionP.v', 'Corr/LoadDriver.v'))
    rng = random.Random(seed)
    C08.run_dload(chk, rng, 16 if tier == 'quick' else 800)
    q = tier == 'quick'
    hres = collect(chk, 'hist', 'hist', stage_lin.gen_cases(rng, 32 if q else 1600),
                   sample_fn=lambda x: dict(stage='hist', ops=x['ops'][:6], load_classes=x['kinds']))
    session_stage(chk, hres)
    collect(chk, 'hist.sweep', 'sweep', stage_lin.gen_cases(rng, 16 if q else 480),
            sample_fn=lambda x: dict(stage='sweep', steps=x['steps'], load_kinds=x['kinds']))
    pc = [dict(id=i, seed=rng.randrange(10 ** 9), spec=gen.gen_antenna(rng, family=rng.choice(['star', 'chain', 'loop']), tags=rng.choice(['none', 'gaps', 'perm'])))
          for i in range(8 if q else 192)]
    collect(chk, 'hist.procs', 'procs', pc, payload_extra=dict(repeats=4 if q else 8),
            sample_fn=lambda x: dict(stage='procs', objects=x['nobj'], rc=x['rc']))
    return chk.finish()
