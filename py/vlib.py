"""Shared machinery of /verif/bin/vcheck: build, theorem accounting,
correspondence transport (Python <-> coqc), known findings, evidence."""
import fcntl, hashlib, json, os, re, subprocess, sys, time, random, shutil

ROOT = os.path.dirname(os.path.dirname(os.path.abspath(__file__)))
COQ  = os.path.join(ROOT, 'coq')
REPO = os.environ.get('PM_REPO', '/repo')
PY   = os.environ.get('PM_PYTHON', '/venv/bin/python')
NCPU = int(os.environ.get('PM_JOBS', '16'))

FORBIDDEN = re.compile(
    r'\b(Admitted|admit|Axiom|Axioms|Parameter|Parameters|Conjecture|Conjectures|'
    r'Admit\s+Obligations|bypass_check|Unset\s+Guard\s+Checking|Unset\s+Positivity\s+Checking|'
    r'Unset\s+Universe\s+Checking|type-in-type|impredicative-set)\b')

class Lock:
    def __init__(self, name):
        self.path = os.path.join(COQ, name)
    def __enter__(self):
        self.f = open(self.path, 'w')
        fcntl.flock(self.f, fcntl.LOCK_EX)
        return self
    def __exit__(self, *a):
        fcntl.flock(self.f, fcntl.LOCK_UN)
        self.f.close()

def sh(cmd, timeout=1800, cwd=None, env=None):
    p = subprocess.run(cmd, shell=isinstance(cmd, str), cwd=cwd, env=env,
                       stdout=subprocess.PIPE, stderr=subprocess.STDOUT,
                       timeout=timeout, text=True, errors='replace')
    return p.returncode, p.stdout

# ---------------------------------------------------------------- build
def translate():
    """Regenerate coq/Gen/*.v from /repo as it is now."""
    rc, out = sh([sys.executable, os.path.join(ROOT, 'py', 'translate.py')],
                 env=dict(os.environ, PM_REPO=REPO))
    st = {}
    try:
        st = json.load(open(os.path.join(COQ, 'Gen', 'extracted_status.json')))
    except Exception as e:
        st = {'status': {'__translator__': 'FAIL: %s' % e}, 'sources': {}}
    rc3, out3 = sh([sys.executable, os.path.join(ROOT, 'py', 'translate_main.py')], env=dict(os.environ, PM_REPO=REPO))
    try:
        st['status'].update(json.load(open(os.path.join(COQ, 'Gen', 'mainflow_status.json')))['status'])
    except Exception as e:
        st['status']['main_sites'] = 'FAIL: %s' % e
    gen = [os.path.join(ROOT, 'py', 'gen_tables.py')]
    if os.path.exists(gen[0]):
        rc2, out2 = sh([PY] + gen, env=dict(os.environ, PM_REPO=REPO, PYTHONPATH=REPO,
                                               PYTHONHASHSEED='0'))
        if rc2 != 0:
            st['status']['__tables__'] = 'FAIL: ' + out2[-300:]
    return st

def build(targets=None):
    """make -k the development; returns (log, failed_files)."""
    with Lock('.build.lock'):
        mk = os.path.join(COQ, 'Makefile')
        cp = os.path.join(COQ, '_CoqProject')
        if not os.path.exists(mk) or os.path.getmtime(mk) < os.path.getmtime(cp):
            sh('coq_makefile -f _CoqProject -o Makefile', cwd=COQ)
        tg = ' '.join(targets) if targets else ''
        rc, out = sh('timeout 3000 make -k -j%d %s 2>&1' % (NCPU, tg), cwd=COQ, timeout=3100)
        failed = re.findall(r'File "\./([^"]+)", line (\d+), characters [^\n]*\n(?:Error|[^\n]*\nError)', out)
        return rc, out

def vo_ok(rel):
    v = os.path.join(COQ, rel)
    vo = v + 'o'
    return os.path.exists(vo) and os.path.getmtime(vo) >= os.path.getmtime(v)

def forbidden_scan():
    bad = []
    for d, _, fs in os.walk(COQ):
        for f in fs:
            if f.endswith('.v'):
                p = os.path.join(d, f)
                txt = open(p, errors='replace').read()
                # strip comments (non-nested is enough for our own sources)
                txt2 = re.sub(r'\(\*.*?\*\)', '', txt, flags=re.S)
                for m in FORBIDDEN.finditer(txt2):
                    bad.append('%s: %s' % (os.path.relpath(p, COQ), m.group(0)))
    return bad

def theorems_of(rel):
    """Theorem names in a Props file and the Print Assumptions output of each,
    obtained by compiling the file on its own."""
    src = open(os.path.join(COQ, rel)).read()
    names = re.findall(r'^\s*Theorem\s+(\w+)', src, flags=re.M)
    rc, out = sh('timeout 600 coqc -q -R . PM -w -deprecated-instance-without-locality %s' % rel,
                 cwd=COQ, timeout=700)
    axioms = {}
    # Print Assumptions output blocks: "Axioms:\n..." or "Closed under the global context"
    blocks = re.split(r'(?m)^(?=Axioms:|Closed under the global context)', out)
    pa = [b for b in blocks if b.startswith('Axioms:') or b.startswith('Closed under')]
    used = set()
    for b in pa:
        for m in re.finditer(r'(?m)^([A-Za-z_][\w\.]*)\s*:', b):
            if m.group(1) != 'Axioms':
                used.add(m.group(1))
    ok = (rc == 0)
    failed_at = None
    if not ok:
        m = re.search(r'line (\d+), characters', out)
        failed_at = int(m.group(1)) if m else 0
    discharged = []
    if ok:
        discharged = list(names)
    else:
        # theorems whose Qed/Defined precedes the failing line were accepted
        lines = src.split('\n')
        pos = {}
        for i, l in enumerate(lines, 1):
            m = re.match(r'\s*Theorem\s+(\w+)', l)
            if m:
                pos[m.group(1)] = i
        order = sorted(pos.items(), key=lambda x: x[1])
        for j, (n, ln) in enumerate(order):
            nxt = order[j + 1][1] if j + 1 < len(order) else len(lines) + 1
            if failed_at and nxt <= failed_at:
                discharged.append(n)
    return dict(names=names, discharged=discharged, ok=ok, axioms=sorted(used),
                n_print_assumptions=len(pa), log=out[-3000:], failed_line=failed_at)

# ------------------------------------------------------ real-code worker
def run_worker(task, payload, timeout=3000):
    """Run py/worker.py <task> in a fresh process of the repo's interpreter
    with /repo first on the path. Returns (ok, result_or_error_text)."""
    tmpd = os.path.join(ROOT, '.work')
    os.makedirs(tmpd, exist_ok=True)
    tag = '%s-%d-%d' % (task, os.getpid(), random.randrange(10**9))
    fin = os.path.join(tmpd, tag + '.in.json')
    fout = os.path.join(tmpd, tag + '.out.json')
    json.dump(payload, open(fin, 'w'))
    env = dict(os.environ, PYTHONPATH=REPO, PYTHONHASHSEED='0', PM_REPO=REPO,
               OMP_NUM_THREADS='1', OPENBLAS_NUM_THREADS='1', MKL_NUM_THREADS='1')
    try:
        rc, out = sh([PY, os.path.join(ROOT, 'py', 'worker.py'), task, fin, fout],
                     timeout=timeout, env=env, cwd=tmpd)
        if rc != 0 or not os.path.exists(fout):
            return False, out[-4000:]
        return True, json.load(open(fout))
    except subprocess.TimeoutExpired:
        return False, 'worker timeout'
    finally:
        for f in (fin, fout):
            if os.path.exists(f):
                os.remove(f)

def run_workers(task, payloads, timeout=3000):
    """Several workers in parallel (one process each)."""
    from concurrent.futures import ThreadPoolExecutor
    with ThreadPoolExecutor(max_workers=min(NCPU, max(1, len(payloads)))) as ex:
        return list(ex.map(lambda p: run_worker(task, p, timeout), payloads))

# ------------------------------------------------------ coq evaluation
def fhex(x):
    """Python float -> Coq primitive float literal."""
    x = float(x)
    if x != x:
        return 'nan'
    if x == float('inf'):
        return 'infinity'
    if x == float('-inf'):
        return 'neg_infinity'
    h = x.hex()
    if h.startswith('-'):
        return '(-%s)%%float' % h[1:]
    return '(%s)%%float' % h

def coq_list(items):
    return '[' + '; '.join(items) + ']'

def coq_eval(name, body, timeout=900):
    """Compile a generated file Cases/<name>.v (body after the standard header)
    and return coqc's stdout. The file is removed afterwards."""
    d = os.path.join(COQ, 'Cases')
    os.makedirs(d, exist_ok=True)
    path = os.path.join(d, name + '.v')
    with open(path, 'w') as f:
        f.write(body)
    try:
        rc, out = sh('ulimit -s unlimited 2>/dev/null; timeout %d coqc -q -R . PM -w -deprecated-instance-without-locality Cases/%s.v'
                     % (timeout, name), cwd=COQ, timeout=timeout + 30)
        return rc, out
    finally:
        for ext in ('.v', '.vo', '.vok', '.vos', '.glob'):
            p = os.path.join(d, name + ext)
            if os.path.exists(p):
                os.remove(p)
        aux = os.path.join(d, '.' + name + '.aux')
        if os.path.exists(aux):
            os.remove(aux)

def coq_evals(jobs, timeout=900):
    from concurrent.futures import ThreadPoolExecutor
    with ThreadPoolExecutor(max_workers=min(NCPU, max(1, len(jobs)))) as ex:
        return list(ex.map(lambda j: coq_eval(j[0], j[1], timeout), jobs))

FLOAT_RE = r'(?:-?\d+(?:\.\d+)?(?:e[-+]?\d+)?|-?infinity|neg_infinity|nan)'
def parse_floats(txt):
    """All primitive-float values printed by Coq, in order."""
    out = []
    for m in re.finditer(r'\(?(-?\d+(?:\.\d+)?(?:e[-+]?\d+)?|neg_infinity|infinity|nan)\)?%float|(?<![\w.])(neg_infinity|infinity|nan)(?![\w.])', txt):
        s = m.group(1) or m.group(2)
        s = {'neg_infinity': '-inf', 'infinity': 'inf'}.get(s, s)
        out.append(float(s))
    return out

def parse_results(out):
    """Lines of the form  R <id> <payload>  are produced by our Coq drivers via
    a list of (Z * ...) tuples; generic parser for '= [...]' blocks."""
    blocks = re.findall(r'(?s)=\s*(.*?)\n\s*:\s', out)
    return blocks

# ------------------------------------------------------ findings
def load_known():
    p = os.path.join(ROOT, 'known_findings.json')
    if not os.path.exists(p):
        return []
    return json.load(open(p))

def match_known(pid, sig):
    """sig: dict describing a violation; a known entry suppresses it iff every
    key of its 'match' equals the signature's value."""
    for k in load_known():
        if k.get('status') != 'known' or k.get('property') != pid:
            continue
        if all(sig.get(a) == b for a, b in k['match'].items()):
            return k
    return None

def replay_input():
    """`bin/vcheck Cxx --replay <file>`: the input of a stored replay file (an antenna description, or a command line), which the
    check then tries FIRST, before its generated cases; None otherwise"""
    path = os.environ.get('VERIF_REPLAY')
    if not path or not os.path.exists(path):
        return None
    try:
        inp = json.load(open(path)).get('input')
    except Exception:
        return None
    if isinstance(inp, dict) and isinstance(inp.get('spec'), dict) and 'wires' in inp['spec']:
        inp = inp['spec']
    if isinstance(inp, dict) and 'wires' in inp:
        return dict(kind='spec', value=inp)
    if isinstance(inp, dict) and inp.get('argv'):
        return dict(kind='argv', value=inp['argv'], version=inp.get('version'))
    return None

def report_error(chk, stage, x):
    """An exception while running a case: raised inside the repository's code
    -> candidate violation (C20-like crash); raised by the harness itself ->
    the check is broken at that point, never a finding."""
    e = x['error']
    if e.get('in_repo', True):
        chk.violation(dict(stage=stage, exception=e['exception'], raised_in=e['raised_in']),
                      'real code raised %s: %s' % (e['exception'], e['message']), x.get('spec'))
    else:
        chk.tie_broken('harness-error', stage, '%s: %s' % (e['exception'], e['message']))

class Check:
    """Collects what one vcheck run established."""
    def __init__(self, pid, tier, seed):
        self.pid, self.tier, self.seed = pid, tier, seed
        self.t0 = time.time()
        self.violations = []     # (sig, detail, replay_payload)
        self.known_hits = []
        self.broken = []         # ties / theorems that no longer check
        self.obligations = 0
        self.discharged = 0
        self.axioms = set()
        self.theorems = []
        self.evals = 0
        self.nontrivial = set()
        self.samples = []
        self.notes = {}
        self.assumptions = []
        self.trusted = []
        self.rule = ''
        self.stages = {}
        self.fallback_items = []

    def add_case(self, key, nontrivial=True, sample=None):
        self.evals += 1
        if nontrivial:
            self.nontrivial.add(key)
        if sample is not None and len(self.samples) < 5:
            self.samples.append(sample)

    def violation(self, sig, detail, replay):
        k = match_known(self.pid, sig)
        if k is not None:
            self.known_hits.append((k, detail))
        else:
            self.violations.append((sig, detail, replay))

    def tie_broken(self, kind, name, detail):
        for b in self.broken:
            if b['kind'] == kind and b['name'] == name:
                b['count'] = b.get('count', 1) + 1
                return
        self.broken.append(dict(kind=kind, name=name, detail=detail))

    # correspondence stages in which the model evaluates an extracted definition against the real function
    ITEM_STAGES = {
        'fset': ('zmat', 'zmat-taperjoin', 'ff', 'lin', 'nf', 'dload'),
        'src_power': ('lin',), 'src_impedance': ('lin',), 'rhs_entry': ('lin',), 'load_diag': ('lin',),
        'laplace_imp': ('dload',), 'rlc_coeffs': ('dload',), 'trap_coeffs': ('dload',), 'ins_zins': ('dload',), 'ins_half': ('dload',),
        'r_equiv': ('dload',), 'skin_zint': ('dload',), 'cond_of_res': ('dload',), 'medium_imp': ('ff', 'dload'),
        'ff_k9': ('ff',), 'ff_f3': ('ff',), 'ff_theta': ('ff',), 'ff_phi': ('ff',), 'ff_t1': ('ff',), 'ff_t2': ('ff',), 'ff_t3': ('ff',),
        'ff_above': ('ff',), 'ff_db': ('ff',), 'ff_rat': ('ff',), 'ffp_scale': ('ff',), 'angle_deg': ('grid',), 'grid_axis': ('grid',), 'gnd_flags': ('topo', 'zmat', 'junc', 'addr', 'nf'),
    }

    def finish(self):
        for it, why in self.fallback_items:
            ran = [s for s in self.ITEM_STAGES.get(it, ()) if s in self.stages]
            if ran:
                self.notes.setdefault('fallback_items', {})[it] = 'not translated on this run (%s); hand-kept definition tied by stage(s) %s' % (why[10:], ', '.join(ran))
            else:
                self.tie_broken('translator', it, why + ' (no correspondence stage of this check evaluates the hand-kept definition)')
        os.makedirs(os.path.join(ROOT, 'evidence'), exist_ok=True)
        os.makedirs(os.path.join(ROOT, 'replays'), exist_ok=True)
        lines = []
        seen = set()
        for k, detail in self.known_hits:
            if k['id'] in seen:
                continue
            seen.add(k['id'])
            lines.append('KNOWN-FINDING: property=%s %s' % (self.pid, k['what']))
        nviol = 0
        if self.violations:
            # one replay file per distinct signature
            done = set()
            for sig, detail, replay in self.violations:
                key = json.dumps(sig, sort_keys=True)
                if key in done:
                    continue
                done.add(key)
                nviol += 1
                name = '%s-%d-%d.json' % (self.pid, self.seed, nviol)
                path = os.path.join(ROOT, 'replays', name)
                json.dump(dict(property=self.pid, seed=self.seed, signature=sig, detail=detail,
                               broken=self.broken, input=replay,
                               replay_cmd='bin/vcheck %s --replay %s' % (self.pid, path)),
                          open(path, 'w'), indent=1, default=str)
                lines.append('VIOLATION property=%s replay=%s' % (self.pid, path))
        elif self.broken:
            nviol = 1
            name = '%s-%d-broken.json' % (self.pid, self.seed)
            path = os.path.join(ROOT, 'replays', name)
            json.dump(dict(property=self.pid, seed=self.seed, broken=self.broken,
                           note='a proof obligation, the translator contract or a correspondence '
                                'stage no longer checks; the search oracles found no failing input'),
                      open(path, 'w'), indent=1, default=str)
            lines.append('VIOLATION property=%s replay=%s no-failing-input-found' % (self.pid, path))
        ev = dict(
            property_id=self.pid, tier=self.tier, seed=self.seed, level='proof',
            coverage=dict(
                obligations=self.obligations, discharged=self.discharged,
                checker_cmd='make -C /verif/coq (coqc 8.16.1, full .vo build) + coqc Props/%s.v with Print Assumptions' % self.pid,
                trusted_base=sorted(self.axioms) + self.trusted,
                theorems=self.theorems,
                evaluations=self.evals, distinct_nontrivial=len(self.nontrivial),
                rule=self.rule, samples=self.samples, stages=self.stages,
                broken=self.broken, notes=self.notes,
                known_findings_seen=sorted(seen),
            ),
            assumptions=self.assumptions,
            wall_s=round(time.time() - self.t0, 2),
            violations=nviol,
        )
        json.dump(ev, open(os.path.join(ROOT, 'evidence', self.pid + '.json'), 'w'),
                  indent=1, default=str)
        for l in lines:
            print(l)
        print('%s %s: theorems %d/%d, cases %d (%d distinct non-trivial), known %d, violations %d, %.1fs'
              % (self.pid, self.tier, self.discharged, self.obligations, self.evals,
                 len(self.nontrivial), len(seen), nviol, time.time() - self.t0))
        return 1 if nviol else 0

STD_TRUSTED = [
    'Coq 8.16.1 kernel + vm_compute (no native_compute, no extraction)',
    'py/translate.py (fail-closed ast translator) for the definitions in Gen/Extracted.v',
    'py correspondence harness: generated inputs, hex-float transport, stated tolerances',
    'Base/FloatLib.v elementary functions: used for execution only, never in a theorem',
]

def standard_front(chk, prop_rel, needs_items=(), extra_vo=()):
    """Steps 1-3 of a run: translate, build, theorem accounting."""
    st = translate()
    chk.notes['extracted'] = st.get('status', {})
    for it in needs_items:
        s = st.get('status', {}).get(it, 'missing')
        if s.startswith('fallback'):
            # not translated on this run: the hand-kept definition is used; accepted only if a correspondence stage that
            # evaluates it against the real function runs in this check (decided in finish ())
            chk.fallback_items.append((it, s))
        elif s != 'ok':
            chk.tie_broken('translator', it, s)
    rc, log = build()
    bad = forbidden_scan()
    if bad:
        chk.tie_broken('forbidden-vernacular', 'grep', '; '.join(bad[:10]))
    for rel in extra_vo:
        if not vo_ok(rel):
            chk.tie_broken('build', rel, 'does not compile: ' + _err_of(log, rel))
    th = theorems_of(prop_rel)
    chk.obligations = len(th['names'])
    chk.discharged = len(th['discharged'])
    chk.theorems = [dict(name=n, discharged=(n in th['discharged'])) for n in th['names']]
    chk.axioms |= set(th['axioms'])
    chk.trusted = list(STD_TRUSTED)
    if not th['ok']:
        chk.tie_broken('theorem', prop_rel, th['log'][-1500:])
    if th['n_print_assumptions'] < len(th['names']) and th['ok']:
        chk.tie_broken('theorem', prop_rel, 'a theorem lacks its Print Assumptions')
    if chk.tier == 'thorough' and th['ok']:
        # the independent checker re-checks the compiled property file and everything it depends on
        mod = 'PM.' + prop_rel[:-2].replace('/', '.')
        rc2, out2 = sh('timeout 2400 coqchk -o -R . PM %s 2>&1 | tail -n 2000' % mod, cwd=COQ, timeout=2500)
        ok2 = 'Modules were successfully checked' in out2
        chk.notes['coqchk'] = dict(ok=ok2, axioms=sorted(set(re.findall(r'(?m)^\s*([A-Za-z_][\w\.]*\.[\w\.]+)\s*$', out2.split('* Axioms:')[-1].split('* Constants')[0])))[:60] if '* Axioms:' in out2 else [])
        failed2 = ('Fatal Error' in out2) or bool(re.search(r'(?m)^Error', out2))
        chk.notes['coqchk']['completed'] = ok2 or failed2
        if failed2:
            chk.tie_broken('theorem', 'coqchk', out2[-600:])
        # not completed inside the limit (the Interval library alone takes > 40 min on a loaded machine): recorded in the
        # evidence as not completed; coqc's kernel has accepted the file, the independent re-check adds nothing it can refute here
    return st, th

def _err_of(log, rel):
    i = log.find(rel)
    return log[i:i + 600] if i >= 0 else log[-600:]
