"""Correspondence stage `fmt`: Model.Format.format_float evaluated by coqc on
binary64 inputs, compared character by character with util.format_float."""
import random, re, json, os, math, struct
import gen
from vlib import *

HEADER = '''From Coq Require Import ZArith NArith List Bool PrimFloat.
Import ListNotations.
From PM Require Import Corr.FmtDriver.
Set Printing Depth 10000000.
Set Printing Width 200.
'''

def _ulp_step(x, k):
    b = struct.unpack('<q', struct.pack('<d', x))[0]
    return struct.unpack('<d', struct.pack('<q', b + k))[0]

def gen_floats(rng, n):
    """mostly generic magnitudes 1e-30..1e12, plus the edges: powers of ten and their neighbours, ties of the
    decimal rounding, values that round up across a power of ten, 0.1, zeros, large integers"""
    out = []
    kinds = {}
    def add(kind, f, e=None):
        if f != f or abs(f) == float('inf'):
            return
        kinds[kind] = kinds.get(kind, 0) + 1
        out.append((float(f), rng.random() < 0.5 if e is None else e, kind))
    for z in (0.0, -0.0):
        add('zero', z, False); add('zero', z, True)
    for p in range(-30, 13):
        for k in (-2, -1, 0, 1, 2):
            f = _ulp_step(float('1e%d' % p), k)
            add('power-of-ten', f * rng.choice((1, -1)), False); add('power-of-ten', f, True)
    while len(out) < n:
        r = rng.random()
        sgn = rng.choice((1.0, -1.0))
        if r < 0.45:
            add('generic', sgn * 10 ** rng.uniform(-30, 12))
        elif r < 0.55:
            p = rng.randrange(-8, 9)
            add('rounds-up', sgn * float('1e%d' % p) * (1 - 10 ** rng.uniform(-9, -6)))
        elif r < 0.68:
            # exact ties of '%.Nf': (k + 1/2) * 2^-j style dyadics with few decimals
            j = rng.randrange(1, 12)
            add('dyadic-tie', sgn * (rng.randrange(0, 2 ** 22) + 0.5) / 2 ** j)
        elif r < 0.78:
            add('integer', sgn * float(rng.randrange(1, 10 ** rng.randrange(1, 13))))
        elif r < 0.88:
            add('short-decimal', sgn * round(10 ** rng.uniform(-7, 7), rng.randrange(0, 8)))
        elif r < 0.94:
            add('near-0.1', sgn * _ulp_step(0.1, rng.randrange(-3, 4)) * rng.choice((1, 1, 0.999999, 1.000001)))
        else:
            add('large', sgn * 10 ** rng.uniform(7, 12))
    return out, kinds

def run_fmt(chk, rng, n):
    vals, kinds = gen_floats(rng, n)
    cases = [dict(id=i, f=v[0].hex(), e=bool(v[1])) for i, v in enumerate(vals)]
    shards = [cases[k::NCPU] for k in range(NCPU) if cases[k::NCPU]]
    res = run_workers('rep.fmt', [dict(cases=s) for s in shards])
    real = {}
    for ok, r in res:
        if not ok:
            chk.tie_broken('correspondence', 'fmt', 'real code could not be run: ' + str(r)[-600:]); continue
        for x in r['results']:
            real[x['id']] = x
    if not all(vo_ok(f) for f in ('Corr/FmtDriver.v', 'Model/Format.v')):
        chk.tie_broken('correspondence', 'fmt', 'model (Model/Format.v) does not compile')
        return
    per = 400
    groups = [cases[k:k + per] for k in range(0, len(cases), per)]
    jobs = [('fmt_%d_%d' % (os.getpid(), gi),
             HEADER + 'Eval vm_compute in fmt_cases %s.\n' % coq_list(['(%s, %s)' % (fhex(float.fromhex(c['f'])), 'true' if c['e'] else 'false') for c in g]))
            for gi, g in enumerate(groups)]
    outs = coq_evals(jobs)
    nbad = ncmp = 0
    for g, (rc, out) in zip(groups, outs):
        m = re.search(r'(?s)=\s*(\[.*\])\s*:\s*list \(list N\)', out)
        if rc != 0 or not m:
            chk.tie_broken('correspondence', 'fmt', 'model evaluation failed: ' + out[-600:]); continue
        rows = re.findall(r'\[([^\[\]]*)\]', m.group(1))
        if len(rows) != len(g):
            chk.tie_broken('correspondence', 'fmt', 'model returned %d strings for %d cases' % (len(rows), len(g))); continue
        for c, row in zip(g, rows):
            ms = ''.join(chr(int(x)) for x in re.findall(r'\d+', row))
            rr = real.get(c['id'])
            if rr is None:
                continue
            f = float.fromhex(c['f'])
            chk.add_case('fmt:%s:%d' % (c['f'], c['e']), f != 0, sample=dict(kind=vals[c['id']][2], f=repr(f), use_e=c['e']))
            ncmp += 1
            if 'error' in rr:
                nbad += 1
                chk.tie_broken('correspondence', 'fmt', 'format_float (%r, use_e=%s) raises %s, model gives %r' % (f, c['e'], rr['error']['exception'], ms))
                chk.notes.setdefault('fmt_fail', []).append(dict(f=c['f'], use_e=c['e']))
            elif rr['s'] != ms:
                nbad += 1
                chk.tie_broken('correspondence', 'fmt', 'format_float (%r, use_e=%s) is %r, model %r' % (f, c['e'], rr['s'], ms))
                chk.notes.setdefault('fmt_fail', []).append(dict(f=c['f'], use_e=c['e']))
    # the character-level reader of Proofs/FormatT.v, run inside Coq on the REAL texts, against Python's Decimal
    from decimal import Decimal
    texts = [(c, real[c['id']]['s']) for c in cases if c['id'] in real and 's' in real[c['id']]]
    groups = [texts[k:k + per] for k in range(0, len(texts), per)]
    jobs = [('prs_%d_%d' % (os.getpid(), gi),
             HEADER + 'Eval vm_compute in parse_cases %s.\n' % coq_list([coq_list(['%d%%N' % ord(ch) for ch in t]) for c, t in g]))
            for gi, g in enumerate(groups)]
    outs = coq_evals(jobs)
    npr = nprbad = 0
    for g, (rc, out) in zip(groups, outs):
        m = re.search(r'(?s)=\s*(\[.*\])\s*:\s*list \(list Z\)', out)
        if rc != 0 or not m:
            chk.tie_broken('correspondence', 'fmt', 'reader evaluation failed: ' + out[-600:]); continue
        rows = re.findall(r'\[([^\[\]]*)\]', m.group(1))
        if len(rows) != len(g):
            chk.tie_broken('correspondence', 'fmt', 'reader returned %d results for %d texts' % (len(rows), len(g))); continue
        for (c, t), row in zip(g, rows):
            v = [int(x) for x in re.findall(r'-?\d+', row)]
            npr += 1
            want = Decimal(t.strip())
            ok = len(v) == 3 and (Decimal(-1 if v[0] else 1) * Decimal(v[1]).scaleb(v[2])) == want and (bool(v[0]) == t.startswith('-'))
            if not ok:
                nprbad += 1
                chk.tie_broken('correspondence', 'fmt', 'the reader of Proofs/FormatT.v reads %r as %r, Python reads %s' % (t, v, want))
    chk.stages['fmt'] = dict(cases=len(cases), compared=ncmp, disagreements=nbad, kinds=kinds, texts_read_back=npr, reader_disagreements=nprbad)


# ------------------------------------------------------------------ stage env: the ENVIRONMENT block, line kinds
ENV_HEADER = '''From Coq Require Import List Bool Arith.
Import ListNotations.
From PM Require Import Model.Env.
Set Printing Depth 10000000. Set Printing Width 1000000.
'''
def gen_media(rng):
    """None = free space, [] = perfect ground, else 1..4 real media, the first optionally with a radial screen"""
    u = rng.random()
    if u < 0.08: return None
    if u < 0.16: return []
    n = rng.choice([1, 2, 2, 3, 3, 3, 4])
    bd = rng.choice(['linear', 'circular'])
    media = []
    x = 0.0
    for i in range(n):
        x += 10 ** rng.uniform(0, 1.5)
        md = dict(perm=rng.choice([3, 13, 20, 80]), cond=float('%.4g' % 10 ** rng.uniform(-4, 0.7)),
                  height=(0.0 if i == 0 else -float('%.3g' % rng.uniform(0.1, 5))), coord=(x if i < n - 1 else None), boundary=bd)
        if i == 0 and n > 1 and rng.random() < 0.4:
            md['nradials'] = rng.choice([4, 36, 120]); md['radius'] = 0.002
        media.append(md)
    return media

def run_env(chk, rng, n):
    cases = [dict(id=i, media=gen_media(rng)) for i in range(n)]
    # every shape once, whatever the random stream does
    fixed = [None, []] + [[dict(perm=13, cond=0.005, height=(0.0 if i == 0 else -1.0 * i), coord=(10.0 * (i + 1) if i < k - 1 else None), boundary=bd,
                                **(dict(nradials=36, radius=0.002) if (rad and i == 0 and k > 1) else {})) for i in range(k)]
                          for k in (1, 2, 3, 4) for bd in ('linear', 'circular') for rad in (False, True)]
    cases += [dict(id=n + j, media=md) for j, md in enumerate(fixed)]
    shards = [cases[k::NCPU] for k in range(NCPU) if cases[k::NCPU]]
    res = run_workers('rep.env', [dict(cases=s) for s in shards])
    real = {}
    for ok, r in res:
        if not ok:
            chk.tie_broken('correspondence', 'env', 'real code could not be run: ' + str(r)[-600:]); continue
        for x in r['results']:
            real[x['id']] = x
    if not vo_ok('Model/Env.v'):
        chk.tie_broken('correspondence', 'env', 'model (Model/Env.v) does not compile'); return
    def coq_media(md):
        if md is None: return 'None'
        if md == []: return 'Some [mkMed true false]'
        return 'Some %s' % coq_list(['mkMed false %s' % ('true' if x.get('nradials') else 'false') for x in md])
    def coq_circ(md):
        # the boundary the user asked for, or the circular one a radial screen forces
        return 'true' if md and (md[0].get('boundary') == 'circular' or md[0].get('nradials')) else 'false'
    rc, out = coq_eval('env_%d' % os.getpid(), ENV_HEADER + 'Eval vm_compute in map (fun cm => env_report (fst cm) (snd cm)) %s.\n' % coq_list(['(%s, %s)' % (coq_circ(c['media']), coq_media(c['media'])) for c in cases]))
    m = re.search(r'(?s)=\s*(\[.*\])\s*:\s*list \(list nat\)', out)
    if rc != 0 or not m:
        chk.tie_broken('correspondence', 'env', 'model evaluation failed: ' + out[-600:]); return
    rows = [[int(x) for x in re.findall(r'\d+', row)] for row in re.findall(r'\[([^\[\]]*)\]', m.group(1))]
    if len(rows) != len(cases):
        chk.tie_broken('correspondence', 'env', 'model returned %d blocks for %d cases' % (len(rows), len(cases))); return
    nbad = 0
    for c, row in zip(cases, rows):
        rr = real.get(c['id'])
        if rr is None: continue
        nm = 0 if not c['media'] else len(c['media'])
        chk.add_case('env:' + json.dumps(c['media'], sort_keys=True), nm >= 2, sample=dict(stage='env', media=nm))
        if 'error' in rr:
            nbad += 1; chk.tie_broken('correspondence', 'env', 'environment block of %r raises %s' % (c['media'], rr['error']['exception'])); continue
        if rr['kinds'] != row:
            nbad += 1
            chk.tie_broken('correspondence', 'env', 'environment block of %d media has the lines %r, the model %r' % (nm, rr['kinds'], row))
            # the disagreement is itself a failing input when the model's theorem is what the property asks: heights / interfaces
            want_b = [22 if coq_circ(c['media']) == 'true' else 21] if nm > 1 else []
            if [k for k in rr['kinds'] if k in (21, 22, 2)] != want_b:
                chk.violation(dict(stage='env', what='boundary type'), 'the report of %d media with boundary %r%s prints the boundary lines %r' % (
                              nm, c['media'][0].get('boundary'), ' and a radial screen' if c['media'][0].get('nradials') else '', [k - 20 for k in rr['kinds'] if k in (21, 22)]),
                              dict(f=10.0, wires=[gen.wire(4, [0, 0, 1.0], [0, 0, 3.0], 0.001)], media=c['media'], family='env', tagmode='none', sources=[], loads=[]))
            if rr['kinds'].count(7) != max(nm - 1, 0) or rr['kinds'].count(6) != max(nm - 1, 0):
                chk.violation(dict(stage='env', what='environment block'), 'the report of %d media prints %d HEIGHT and %d interface lines (%d of each are due): kinds %r'
                              % (nm, rr['kinds'].count(7), rr['kinds'].count(6), max(nm - 1, 0), rr['kinds']),
                              dict(f=10.0, wires=[gen.wire(4, [0, 0, 1.0], [0, 0, 3.0], 0.001)], media=c['media'], family='env', tagmode='none', sources=[], loads=[]))
    chk.stages['env'] = dict(cases=len(cases), disagreements=nbad)
