"""Correspondence stage `fmt`: Model.Format.format_float evaluated by coqc on
binary64 inputs, compared character by character with util.format_float."""
import random, re, json, os, math, struct
from vlib import *

HEADER = '''From Coq Require Import ZArith NArith List Bool PrimFloat.
Import ListNotations.
From PM Require Import Corr.FmtDriver.
Set Printing Depth 10000000.
Set Printing Width 200.
'''

def _ulp_step(x, k):
    b = struct.unpack('<q', struct.pack('<d', x))[0]
    return struct.unpack('<d', struct.pack('<q', b + k))[0]

def gen_floats(rng, n):
    """mostly generic magnitudes 1e-30..1e12, plus the edges: powers of ten and their neighbours, ties of the
    decimal rounding, values that round up across a power of ten, 0.1, zeros, large integers"""
    out = []
    kinds = {}
    def add(kind, f, e=None):
        if f != f or abs(f) == float('inf'):
            return
        kinds[kind] = kinds.get(kind, 0) + 1
        out.append((float(f), rng.random() < 0.5 if e is None else e, kind))
    for z in (0.0, -0.0):
        add('zero', z, False); add('zero', z, True)
    for p in range(-30, 13):
        for k in (-2, -1, 0, 1, 2):
            f = _ulp_step(float('1e%d' % p), k)
            add('power-of-ten', f * rng.choice((1, -1)), False); add('power-of-ten', f, True)
    while len(out) < n:
        r = rng.random()
        sgn = rng.choice((1.0, -1.0))
        if r < 0.45:
            add('generic', sgn * 10 ** rng.uniform(-30, 12))
        elif r < 0.55:
            p = rng.randrange(-8, 9)
            add('rounds-up', sgn * float('1e%d' % p) * (1 - 10 ** rng.uniform(-9, -6)))
        elif r < 0.68:
            # exact ties of '%.Nf': (k + 1/2) * 2^-j style dyadics with few decimals
            j = rng.randrange(1, 12)
            add('dyadic-tie', sgn * (rng.randrange(0, 2 ** 22) + 0.5) / 2 ** j)
        elif r < 0.78:
            add('integer', sgn * float(rng.randrange(1, 10 ** rng.randrange(1, 13))))
        elif r < 0.88:
            add('short-decimal', sgn * round(10 ** rng.uniform(-7, 7), rng.randrange(0, 8)))
        elif r < 0.94:
            add('near-0.1', sgn * _ulp_step(0.1, rng.randrange(-3, 4)) * rng.choice((1, 1, 0.999999, 1.000001)))
        else:
            add('large', sgn * 10 ** rng.uniform(7, 12))
    return out, kinds

def run_fmt(chk, rng, n):
    vals, kinds = gen_floats(rng, n)
    cases = [dict(id=i, f=v[0].hex(), e=bool(v[1])) for i, v in enumerate(vals)]
    shards = [cases[k::NCPU] for k in range(NCPU) if cases[k::NCPU]]
    res = run_workers('rep.fmt', [dict(cases=s) for s in shards])
    real = {}
    for ok, r in res:
        if not ok:
            chk.tie_broken('correspondence', 'fmt', 'real code could not be run: ' + str(r)[-600:]); continue
        for x in r['results']:
            real[x['id']] = x
    if not all(vo_ok(f) for f in ('Corr/FmtDriver.v', 'Model/Format.v')):
        chk.tie_broken('correspondence', 'fmt', 'model (Model/Format.v) does not compile')
        return
    per = 400
    groups = [cases[k:k + per] for k in range(0, len(cases), per)]
    jobs = [('fmt_%d_%d' % (os.getpid(), gi),
             HEADER + 'Eval vm_compute in fmt_cases %s.\n' % coq_list(['(%s, %s)' % (fhex(float.fromhex(c['f'])), 'true' if c['e'] else 'false') for c in g]))
            for gi, g in enumerate(groups)]
    outs = coq_evals(jobs)
    nbad = ncmp = 0
    for g, (rc, out) in zip(groups, outs):
        m = re.search(r'(?s)=\s*(\[.*\])\s*:\s*list \(list N\)', out)
        if rc != 0 or not m:
            chk.tie_broken('correspondence', 'fmt', 'model evaluation failed: ' + out[-600:]); continue
        rows = re.findall(r'\[([^\[\]]*)\]', m.group(1))
        if len(rows) != len(g):
            chk.tie_broken('correspondence', 'fmt', 'model returned %d strings for %d cases' % (len(rows), len(g))); continue
        for c, row in zip(g, rows):
            ms = ''.join(chr(int(x)) for x in re.findall(r'\d+', row))
            rr = real.get(c['id'])
            if rr is None:
                continue
            f = float.fromhex(c['f'])
            chk.add_case('fmt:%s:%d' % (c['f'], c['e']), f != 0, sample=dict(kind=vals[c['id']][2], f=repr(f), use_e=c['e']))
            ncmp += 1
            if 'error' in rr:
                nbad += 1
                chk.tie_broken('correspondence', 'fmt', 'format_float (%r, use_e=%s) raises %s, model gives %r' % (f, c['e'], rr['error']['exception'], ms))
                chk.notes.setdefault('fmt_fail', []).append(dict(f=c['f'], use_e=c['e']))
            elif rr['s'] != ms:
                nbad += 1
                chk.tie_broken('correspondence', 'fmt', 'format_float (%r, use_e=%s) is %r, model %r' % (f, c['e'], rr['s'], ms))
                chk.notes.setdefault('fmt_fail', []).append(dict(f=c['f'], use_e=c['e']))
    # the character-level reader of Proofs/FormatT.v, run inside Coq on the REAL texts, against Python's Decimal
    from decimal import Decimal
    texts = [(c, real[c['id']]['s']) for c in cases if c['id'] in real and 's' in real[c['id']]]
    groups = [texts[k:k + per] for k in range(0, len(texts), per)]
    jobs = [('prs_%d_%d' % (os.getpid(), gi),
             HEADER + 'Eval vm_compute in parse_cases %s.\n' % coq_list([coq_list(['%d%%N' % ord(ch) for ch in t]) for c, t in g]))
            for gi, g in enumerate(groups)]
    outs = coq_evals(jobs)
    npr = nprbad = 0
    for g, (rc, out) in zip(groups, outs):
        m = re.search(r'(?s)=\s*(\[.*\])\s*:\s*list \(list Z\)', out)
        if rc != 0 or not m:
            chk.tie_broken('correspondence', 'fmt', 'reader evaluation failed: ' + out[-600:]); continue
        rows = re.findall(r'\[([^\[\]]*)\]', m.group(1))
        if len(rows) != len(g):
            chk.tie_broken('correspondence', 'fmt', 'reader returned %d results for %d texts' % (len(rows), len(g))); continue
        for (c, t), row in zip(g, rows):
            v = [int(x) for x in re.findall(r'-?\d+', row)]
            npr += 1
            want = Decimal(t.strip())
            ok = len(v) == 3 and (Decimal(-1 if v[0] else 1) * Decimal(v[1]).scaleb(v[2])) == want and (bool(v[0]) == t.startswith('-'))
            if not ok:
                nprbad += 1
                chk.tie_broken('correspondence', 'fmt', 'the reader of Proofs/FormatT.v reads %r as %r, Python reads %s' % (t, v, want))
    chk.stages['fmt'] = dict(cases=len(cases), compared=ncmp, disagreements=nbad, kinds=kinds, texts_read_back=npr, reader_disagreements=nprbad)
