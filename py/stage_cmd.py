"""Correspondence stage `cmd` (C15): Model.Options.write_attach / resolve_all
evaluated by coqc on the pulse layout and the attached pulses of real loads,
compared with the attachment options the real writer emits and with the pulses
of the loads of the re-read model."""
import re, os, json
from vlib import *

HEADER = '''From Coq Require Import ZArith List Bool Arith.
Import ListNotations.
From PM Require Import Model.Options Corr.OptDriver.
Set Printing Depth 10000000.
Set Printing Width 200.
'''
def zl(l): return coq_list(['(%d)%%Z' % int(x) for x in l])
def nl(l): return coq_list(['%d%%nat' % int(x) for x in l])

def run_cmd(chk, results):
    """results: the c15 worker results having 'obs'"""
    items = []
    for r in results:
        o = r.get('obs')
        if not o: continue
        if not o['layout_ok']:
            chk.tie_broken('correspondence', 'cmd', 'pulse numbering is not object by object for %r' % r['argv']); continue
        for k, l in enumerate(o['loads']):
            items.append((r, o, k, l))
    if not all(vo_ok(f) for f in ('Corr/OptDriver.v', 'Model/Options.v')):
        chk.tie_broken('correspondence', 'cmd', 'model (Model/Options.v) does not compile'); return
    per = 300
    groups = [items[k:k + per] for k in range(0, len(items), per)]
    jobs = [('cmd_%d_%d' % (os.getpid(), gi), HEADER + '\n'.join(
              'Eval vm_compute in (attach_case %s %s %s %s).' % (zl(o['tags']), nl(o['counts']), 'true' if o['by_geo'] else 'false', nl(l['pulses']))
              for (r, o, k, l) in g) + '\n') for gi, g in enumerate(groups)]
    outs = coq_evals(jobs)
    nbad = ncmp = 0; forms = {}
    for g, (rc, out) in zip(groups, outs):
        blocks = re.findall(r'(?s)=\s*(\[.*?\])\s*:\s*list \(list Z\)', out)
        if rc != 0 or len(blocks) != len(g):
            chk.tie_broken('correspondence', 'cmd', 'model evaluation failed: ' + out[-600:]); continue
        for (r, o, k, l), b in zip(g, blocks):
            rows = [[int(x) for x in re.findall(r'-?\d+', row)] for row in re.findall(r'\[([^\[\]]*)\]', b)]
            mw, mres = rows[:-1], rows[-1]
            ncmp += 1
            for t in l['written']: forms[t[0]] = forms.get(t[0], 0) + 1
            chk.add_case('att:' + json.dumps([o['tags'], o['counts'], o['by_geo'], l['pulses']]), len(l['pulses']) > 0,
                         sample=dict(objects=len(o['tags']), attached=len(l['pulses']), by_geo=o['by_geo']))
            if mw != l['written']:
                nbad += 1
                chk.notes.setdefault('failing_argv', []).append(r['argv'])
                chk.tie_broken('correspondence', 'cmd', 'load %d of %r: written attachments %r, model %r' % (k + 1, r['argv'], l['written'], mw))
            elif l['reread'] is not None and sorted(mres) != sorted(l['reread']):
                nbad += 1
                chk.notes.setdefault('failing_argv', []).append(r['argv'])
                chk.tie_broken('correspondence', 'cmd', 'load %d of %r: re-read load sits on pulses %r, model reader gives %r' % (k + 1, r['argv'], sorted(l['reread']), sorted(mres)))
    chk.stages['cmd'] = dict(loads=len(items), compared=ncmp, disagreements=nbad,
                             written_forms={['absolute', 'per-object', 'all', 'all-of-object'][k]: v for k, v in forms.items()})
