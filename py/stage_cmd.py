"""Correspondence stage `cmd` (C15): Model.Options.write_attach / resolve_all
evaluated by coqc on the pulse layout and the attached pulses of real loads,
compared with the attachment options the real writer emits and with the pulses
of the loads of the re-read model."""
import re, os, json
from vlib import *

HEADER = '''From Coq Require Import ZArith List Bool Arith.
Import ListNotations.
From PM Require Import Model.Options Model.Objects Corr.OptDriver.
Set Printing Depth 10000000.
Set Printing Width 200.
'''
def zl(l): return coq_list(['(%d)%%Z' % int(x) for x in l])
def nl(l): return coq_list(['%d%%nat' % int(x) for x in l])

def run_cmd(chk, results):
    """results: the c15 worker results having 'obs'"""
    items = []
    for r in results:
        o = r.get('obs')
        if not o: continue
        if not o['layout_ok']:
            chk.tie_broken('correspondence', 'cmd', 'pulse numbering is not object by object for %r' % r['argv']); continue
        for k, l in enumerate(o['loads']):
            items.append((r, o, k, l))
    if not all(vo_ok(f) for f in ('Corr/OptDriver.v', 'Model/Options.v')):
        chk.tie_broken('correspondence', 'cmd', 'model (Model/Options.v) does not compile'); return
    per = 300
    groups = [items[k:k + per] for k in range(0, len(items), per)]
    jobs = [('cmd_%d_%d' % (os.getpid(), gi), HEADER + '\n'.join(
              'Eval vm_compute in (attach_case %s %s %s %s).' % (zl(o['tags']), nl(o['counts']), 'true' if o['by_geo'] else 'false', nl(l['pulses']))
              for (r, o, k, l) in g) + '\n') for gi, g in enumerate(groups)]
    outs = coq_evals(jobs)
    nbad = ncmp = 0; forms = {}
    for g, (rc, out) in zip(groups, outs):
        blocks = re.findall(r'(?s)=\s*(\[.*?\])\s*:\s*list \(list Z\)', out)
        if rc != 0 or len(blocks) != len(g):
            chk.tie_broken('correspondence', 'cmd', 'model evaluation failed: ' + out[-600:]); continue
        for (r, o, k, l), b in zip(g, blocks):
            rows = [[int(x) for x in re.findall(r'-?\d+', row)] for row in re.findall(r'\[([^\[\]]*)\]', b)]
            mw, mres = rows[:-1], rows[-1]
            ncmp += 1
            for t in l['written']: forms[t[0]] = forms.get(t[0], 0) + 1
            chk.add_case('att:' + json.dumps([o['tags'], o['counts'], o['by_geo'], l['pulses']]), len(l['pulses']) > 0,
                         sample=dict(objects=len(o['tags']), attached=len(l['pulses']), by_geo=o['by_geo']))
            if mw != l['written']:
                nbad += 1
                chk.notes.setdefault('failing_argv', []).append(r['argv'])
                chk.tie_broken('correspondence', 'cmd', 'load %d of %r: written attachments %r, model %r' % (k + 1, r['argv'], l['written'], mw))
            elif l['reread'] is not None and sorted(mres) != sorted(l['reread']):
                nbad += 1
                chk.notes.setdefault('failing_argv', []).append(r['argv'])
                chk.tie_broken('correspondence', 'cmd', 'load %d of %r: re-read load sits on pulses %r, model reader gives %r' % (k + 1, r['argv'], sorted(l['reread']), sorted(mres)))
    chk.stages['cmd'] = dict(loads=len(items), compared=ncmp, disagreements=nbad,
                             written_forms={['absolute', 'per-object', 'all', 'all-of-object'][k]: v for k, v in forms.items()})


def run_objs(chk, results):
    """objects and tags: the model reader on the given object options must give the real model's objects (kind, tag,
    tag-was-given, which option), the model writer the real written object options"""
    items = [r for r in results if r.get('objs')]
    if not all(vo_ok(f) for f in ('Corr/OptDriver.v', 'Model/Objects.v')):
        chk.tie_broken('correspondence', 'objs', 'model (Model/Objects.v) does not compile'); return
    K = ['KArc', 'KHelix', 'KWire']
    per = 300
    groups = [items[k:k + per] for k in range(0, len(items), per)]
    jobs = [('objs_%d_%d' % (os.getpid(), gi), HEADER + '\n'.join(
              'Eval vm_compute in (obj_case %s).' % coq_list(['(mkLine %s %s %d)' % (K[k], ('None' if t < 0 else '(Some (%d)%%Z)' % t), b) for k, t, b in r['objs']['given']])
              for r in g) + '\n') for gi, g in enumerate(groups)]
    outs = coq_evals(jobs)
    nbad = ncmp = 0; untagged = 0
    for g, (rc, out) in zip(groups, outs):
        blocks = re.findall(r'(?s)=\s*(\[.*?\])\s*:\s*list \(list Z\)', out)
        if rc != 0 or len(blocks) != len(g):
            chk.tie_broken('correspondence', 'objs', 'model evaluation failed: ' + out[-600:]); continue
        for r, b in zip(g, blocks):
            rows = [[int(x) for x in re.findall(r'-?\d+', row)] for row in re.findall(r'\[([^\[\]]*)\]', b)]
            ncmp += 1
            o = r['objs']
            untagged += sum(1 for x in o['given'] if x[1] < 0)
            if [-2] not in rows:
                nbad += 1; chk.tie_broken('correspondence', 'objs', 'the model reader rejects the object options of %r' % r['argv']); continue
            cut = rows.index([-2]); mm, mw = rows[:cut], rows[cut + 1:]
            if mm != o['model']:
                nbad += 1; chk.tie_broken('correspondence', 'objs', 'objects of %r: real model %r, model reader %r' % (r['argv'], o['model'], mm))
            elif mw != o['written']:
                nbad += 1; chk.tie_broken('correspondence', 'objs', 'written objects of %r: real %r, model writer %r' % (r['argv'], o['written'], mw))
    chk.stages['objs'] = dict(command_lines=len(items), compared=ncmp, disagreements=nbad, untagged_objects=untagged)


def _rows(b):
    return [[int(x) for x in re.findall(r'-?\d+', row)] for row in re.findall(r'\[([^\[\]]*)\]', b)]

def run_loads(chk, results):
    """load numbering: the model writer (Model/LoadOrder.v) on the real model's lumped loads must give the load section
    of the real written text (defining options in the parser's order, attachments carrying the right number), the model
    reader the order of the loads of the real re-read model"""
    items = [r for r in results if r.get('lds')]
    if not all(vo_ok(f) for f in ('Corr/OptDriver.v', 'Model/LoadOrder.v')):
        chk.tie_broken('correspondence', 'loads', 'model (Model/LoadOrder.v) does not compile'); return
    per = 300
    groups = [items[k:k + per] for k in range(0, len(items), per)]
    jobs = [('lds_%d_%d' % (os.getpid(), gi), HEADER + '\n'.join(
              'Eval vm_compute in (loads_case %s).' % coq_list(['((%d)%%Z, %s)' % (k, zl(ids)) for k, ids in r['lds']['given']])
              for r in g) + '\n') for gi, g in enumerate(groups)]
    outs = coq_evals(jobs)
    nbad = ncmp = mixed = 0
    for g, (rc, out) in zip(groups, outs):
        blocks = re.findall(r'(?s)=\s*(\[.*?\])\s*:\s*list \(list Z\)', out)
        if rc != 0 or len(blocks) != len(g):
            chk.tie_broken('correspondence', 'loads', 'model evaluation failed: ' + out[-600:]); continue
        for r, b in zip(g, blocks):
            o = r['lds']; rows = _rows(b); ncmp += 1
            kinds = [k for k, _ in o['given']]
            if kinds != sorted(kinds): mixed += 1
            chk.add_case('lds:' + json.dumps(o['given']), len(o['given']) > 1, sample=dict(loads=len(o['given']), kinds=kinds))
            if 'unparsed' in o:
                nbad += 1; chk.notes.setdefault('failing_argv', []).append(r['argv'])
                chk.tie_broken('correspondence', 'loads', '%r: %s' % (r['argv'], o['unparsed'])); continue
            cut = rows.index([-2]); mw, mr = rows[:cut], rows[cut + 1:]
            if mw != o['written']:
                nbad += 1; chk.notes.setdefault('failing_argv', []).append(r['argv'])
                chk.tie_broken('correspondence', 'loads', 'written loads of %r: real %r, model writer %r' % (r['argv'], o['written'], mw))
            elif o['reread'] is not None and [x[0] for x in mr] != o['reread']:
                nbad += 1; chk.notes.setdefault('failing_argv', []).append(r['argv'])
                chk.tie_broken('correspondence', 'loads', 're-read loads of %r: real order %r, model reader %r' % (r['argv'], o['reread'], mr))
    chk.stages['loads'] = dict(command_lines=len(items), compared=ncmp, disagreements=nbad, registered_in_mixed_kind_order=mixed)

def run_srcs(chk, results):
    """sources: the model writer (Model/SourceOpts.v) on the real model's sources must give the source options of the real
    written text, the model reader the sources of the real re-read model"""
    items = [r for r in results if r.get('srcs')]
    if not all(vo_ok(f) for f in ('Corr/OptDriver.v', 'Model/SourceOpts.v')):
        chk.tie_broken('correspondence', 'srcs', 'model (Model/SourceOpts.v) does not compile'); return
    per = 300
    groups = [items[k:k + per] for k in range(0, len(items), per)]
    jobs = [('srcs_%d_%d' % (os.getpid(), gi), HEADER + '\n'.join(
              'Eval vm_compute in (srcs_case %s).' % coq_list(['((%d)%%Z, %s, %s)' % (v, zl(a), 'true' if d else 'false') for v, a, d in r['srcs']['given']])
              for r in g) + '\n') for gi, g in enumerate(groups)]
    outs = coq_evals(jobs)
    nbad = ncmp = 0; forms = dict(default=0, one_volt_single=0, several=0, per_object=0)
    for g, (rc, out) in zip(groups, outs):
        blocks = re.findall(r'(?s)=\s*(\[.*?\])\s*:\s*list \(list Z\)', out)
        if rc != 0 or len(blocks) != len(g):
            chk.tie_broken('correspondence', 'srcs', 'model evaluation failed: ' + out[-600:]); continue
        for r, b in zip(g, blocks):
            o = r['srcs']; rows = _rows(b); ncmp += 1
            gv = o['given']
            if any(d for _, _, d in gv): forms['default'] += 1
            if len(gv) == 1 and gv[0][0] == 1: forms['one_volt_single'] += 1
            if len(gv) > 1: forms['several'] += 1
            if any(len(a) == 2 for _, a, _ in gv): forms['per_object'] += 1
            chk.add_case('srcs:' + json.dumps(gv), True, sample=dict(sources=len(gv)))
            cut = rows.index([-2]); mw, mr = rows[:cut], rows[cut + 1:]
            if mw != o['written']:
                nbad += 1; chk.notes.setdefault('failing_argv', []).append(r['argv'])
                chk.tie_broken('correspondence', 'srcs', 'written sources of %r: real %r, model writer %r' % (r['argv'], o['written'], mw))
            elif o['reread'] is not None and mr != o['reread']:
                nbad += 1; chk.notes.setdefault('failing_argv', []).append(r['argv'])
                chk.tie_broken('correspondence', 'srcs', 're-read sources of %r: real %r, model reader %r' % (r['argv'], o['reread'], mr))
    chk.stages['srcs'] = dict(command_lines=len(items), compared=ncmp, disagreements=nbad, forms=forms)


# ------------------------------------------------------------------ stage media: --medium / --boundary / --radial-* against Model/MediaOpts.v
MEDIA_HEADER = '''From Coq Require Import ZArith List Bool.
Import ListNotations.
From PM Require Import Model.MediaOpts.
Set Printing Depth 10000000. Set Printing Width 1000000.
Open Scope Z_scope.
Definition enc_tok (o : opt) : list Z :=
  match o with OMedium v => 0 :: v | OBoundary c => [1; if c then 1 else 0] | ORadCount n => [2; Z.of_nat n] | ORadRadius r => [3; r] end.
Definition enc_env (e : env) : list Z :=
  [Z.of_nat (length (e_media e)); if e_circ e then 1 else 0] ++ (match e_rad e with Some (n, r) => [Z.of_nat n; r] | None => [0; 0] end)
  ++ flat_map (fun m => [mp m; mc m; mh m; mcoord m]) (e_media e).
Definition media_case (os : list opt) : list (list Z) :=
  match read os with None => [[-1]] | Some e => [1] :: enc_env e :: map enc_tok (write e) end.
'''
def gen_media_opts(rng):
    """(option texts, model tokens): mostly valid media of 0-4 layers, the outermost one with or without a coordinate of its own,
    boundary / radial options present, absent, repeated; a malformed stream (2 or 5 values, radials without radius or on the
    only medium)"""
    n = rng.choice([0, 1, 1, 2, 2, 2, 3, 3, 4])
    toks = []
    x = rng.choice([-12, -2, -1, 0, 0])
    if n == 1 and rng.random() < 0.3:
        toks.append([0, 0, 0, 0])            # perfect ground
    else:
        for i in range(n):
            x += rng.randint(0 if i == 0 else 2, 30) if rng.random() < 0.8 else 0
            v = [rng.choice([3, 5, 13, 20, 80]), rng.randint(1, 9), 0 if i == 0 else -rng.randint(0, 5)]
            if (i < n - 1 and rng.random() < 0.9) or (i == n - 1 and rng.random() < 0.35):
                v.append(x if rng.random() < 0.85 else rng.choice([1000000, 0]))
            if rng.random() < 0.04:
                v = v[:2] if rng.random() < 0.5 else (v + [7, 7])[:5]
            toks.append([0] + v)
    extra = []
    for _ in range(rng.choice([0, 1, 1, 2])):
        extra.append([1, rng.randint(0, 1)])
    u = rng.random()
    if u < 0.35:
        extra.append([2, rng.choice([0, 8, 16, 36])])
        if rng.random() < 0.85: extra.append([3, rng.randint(1, 4)])
    elif u < 0.4:
        extra.append([3, 2])
    # the options may come in any order on the command line
    allt = toks + extra
    if rng.random() < 0.5:
        med = [t for t in allt if t[0] == 0]; oth = [t for t in allt if t[0] != 0]; rng.shuffle(oth)
        allt = []
        for t in med:
            allt.append(t)
            while oth and rng.random() < 0.5: allt.append(oth.pop())
        allt = (oth + allt) if rng.random() < 0.5 else (allt + oth)
    def text(t):
        if t[0] == 0: return '--medium=' + ','.join(str(v) for v in t[1:])
        if t[0] == 1: return '--boundary=' + ('circular' if t[1] else 'linear')
        if t[0] == 2: return '--radial-count=%d' % t[1]
        return '--radial-radius=%g' % (t[1] / 1000)
    return [text(t) for t in allt], allt

def run_media(chk, rng, n):
    gens = [gen_media_opts(rng) for _ in range(n)]
    cases = [dict(id=i, opts=o) for i, (o, t) in enumerate(gens)]
    shards = [cases[k::NCPU] for k in range(NCPU) if cases[k::NCPU]]
    res = run_workers('cmd.media', [dict(cases=s) for s in shards])
    real = {}
    for ok, r in res:
        if not ok:
            chk.tie_broken('correspondence', 'media', 'real code could not be run: ' + str(r)[-600:]); continue
        for x in r['results']:
            real[x['id']] = x
    if not vo_ok('Model/MediaOpts.v'):
        chk.tie_broken('correspondence', 'media', 'model (Model/MediaOpts.v) does not compile'); return
    def ctok(t):
        if t[0] == 0: return 'OMedium %s' % coq_list(['(%d)' % v for v in t[1:]])
        if t[0] == 1: return 'OBoundary %s' % ('true' if t[1] else 'false')
        if t[0] == 2: return 'ORadCount %d%%nat' % t[1]
        return 'ORadRadius (%d)' % t[1]
    body = MEDIA_HEADER + '\n'.join('Eval vm_compute in (media_case %s).' % coq_list([ctok(t) for t in tk]) for o, tk in gens) + '\n'
    rc, out = coq_eval('media_%d' % os.getpid(), body)
    blocks = re.findall(r'(?s)=\s*(\[.*?\])\s*:\s*list \(list Z\)', out)
    if rc != 0 or len(blocks) != len(gens):
        chk.tie_broken('correspondence', 'media', 'model evaluation failed: ' + out[-600:]); return
    nbad = nrej = 0; shapes = {}
    for c, (o, tk), b in zip(cases, gens, blocks):
        rows = [[int(x) for x in re.findall(r'-?\d+', row)] for row in re.findall(r'\[([^\[\]]*)\]', b)]
        rr = real.get(c['id'])
        if rr is None: continue
        nm = sum(1 for t in tk if t[0] == 0)
        shapes[nm] = shapes.get(nm, 0) + 1
        chk.add_case('media:' + json.dumps(o), nm >= 2, sample=dict(stage='media', media=nm))
        if 'error' in rr:
            nbad += 1; chk.tie_broken('correspondence', 'media', '%r: %s' % (o, rr['error']['exception'])); continue
        if rows == [[-1]]:
            nrej += 1
            if 'rejected' not in rr:
                nbad += 1; chk.tie_broken('correspondence', 'media', 'the model reader rejects %r, the program accepts it' % (o,))
            continue
        if 'rejected' in rr:
            nbad += 1; chk.tie_broken('correspondence', 'media', 'the program rejects %r (%s), the model reader accepts it' % (o, rr['rejected'][:80])); continue
        if rr.get('rt'):
            chk.violation(dict(stage='media', what='media round trip'), rr['rt'], dict(argv=['-w', '4,0,0,1,0,0,3,0.001', '--excitation-pulse=2'] + o))
        menv, mw = rows[1], rows[2:]
        if rr['env'] != menv:
            nbad += 1; chk.tie_broken('correspondence', 'media', 'media built from %r: real %r, model reader %r' % (o, rr['env'], menv))
        elif rr['written'] != mw:
            nbad += 1; chk.tie_broken('correspondence', 'media', 'media options written for %r: real %r, model writer %r' % (o, rr['written'], mw))
            chk.notes.setdefault('failing_argv', []).append(['-w', '4,0,0,1,0,0,3,0.001', '--excitation-pulse=2'] + o)
    chk.stages['media'] = dict(command_lines=len(gens), rejected_by_both=nrej, disagreements=nbad, media_count=shapes)
