"""Correspondence stage `cmd` (C15): Model.Options.write_attach / resolve_all
evaluated by coqc on the pulse layout and the attached pulses of real loads,
compared with the attachment options the real writer emits and with the pulses
of the loads of the re-read model."""
import re, os, json
from vlib import *

HEADER = '''From Coq Require Import ZArith List Bool Arith.
Import ListNotations.
From PM Require Import Model.Options Model.Objects Corr.OptDriver.
Set Printing Depth 10000000.
Set Printing Width 200.
'''
def zl(l): return coq_list(['(%d)%%Z' % int(x) for x in l])
def nl(l): return coq_list(['%d%%nat' % int(x) for x in l])

def run_cmd(chk, results):
    """results: the c15 worker results having 'obs'"""
    items = []
    for r in results:
        o = r.get('obs')
        if not o: continue
        if not o['layout_ok']:
            chk.tie_broken('correspondence', 'cmd', 'pulse numbering is not object by object for %r' % r['argv']); continue
        for k, l in enumerate(o['loads']):
            items.append((r, o, k, l))
    if not all(vo_ok(f) for f in ('Corr/OptDriver.v', 'Model/Options.v')):
        chk.tie_broken('correspondence', 'cmd', 'model (Model/Options.v) does not compile'); return
    per = 300
    groups = [items[k:k + per] for k in range(0, len(items), per)]
    jobs = [('cmd_%d_%d' % (os.getpid(), gi), HEADER + '\n'.join(
              'Eval vm_compute in (attach_case %s %s %s %s).' % (zl(o['tags']), nl(o['counts']), 'true' if o['by_geo'] else 'false', nl(l['pulses']))
              for (r, o, k, l) in g) + '\n') for gi, g in enumerate(groups)]
    outs = coq_evals(jobs)
    nbad = ncmp = 0; forms = {}
    for g, (rc, out) in zip(groups, outs):
        blocks = re.findall(r'(?s)=\s*(\[.*?\])\s*:\s*list \(list Z\)', out)
        if rc != 0 or len(blocks) != len(g):
            chk.tie_broken('correspondence', 'cmd', 'model evaluation failed: ' + out[-600:]); continue
        for (r, o, k, l), b in zip(g, blocks):
            rows = [[int(x) for x in re.findall(r'-?\d+', row)] for row in re.findall(r'\[([^\[\]]*)\]', b)]
            mw, mres = rows[:-1], rows[-1]
            ncmp += 1
            for t in l['written']: forms[t[0]] = forms.get(t[0], 0) + 1
            chk.add_case('att:' + json.dumps([o['tags'], o['counts'], o['by_geo'], l['pulses']]), len(l['pulses']) > 0,
                         sample=dict(objects=len(o['tags']), attached=len(l['pulses']), by_geo=o['by_geo']))
            if mw != l['written']:
                nbad += 1
                chk.notes.setdefault('failing_argv', []).append(r['argv'])
                chk.tie_broken('correspondence', 'cmd', 'load %d of %r: written attachments %r, model %r' % (k + 1, r['argv'], l['written'], mw))
            elif l['reread'] is not None and sorted(mres) != sorted(l['reread']):
                nbad += 1
                chk.notes.setdefault('failing_argv', []).append(r['argv'])
                chk.tie_broken('correspondence', 'cmd', 'load %d of %r: re-read load sits on pulses %r, model reader gives %r' % (k + 1, r['argv'], sorted(l['reread']), sorted(mres)))
    chk.stages['cmd'] = dict(loads=len(items), compared=ncmp, disagreements=nbad,
                             written_forms={['absolute', 'per-object', 'all', 'all-of-object'][k]: v for k, v in forms.items()})


def run_objs(chk, results):
    """objects and tags: the model reader on the given object options must give the real model's objects (kind, tag,
    tag-was-given, which option), the model writer the real written object options"""
    items = [r for r in results if r.get('objs')]
    if not all(vo_ok(f) for f in ('Corr/OptDriver.v', 'Model/Objects.v')):
        chk.tie_broken('correspondence', 'objs', 'model (Model/Objects.v) does not compile'); return
    K = ['KArc', 'KHelix', 'KWire']
    per = 300
    groups = [items[k:k + per] for k in range(0, len(items), per)]
    jobs = [('objs_%d_%d' % (os.getpid(), gi), HEADER + '\n'.join(
              'Eval vm_compute in (obj_case %s).' % coq_list(['(mkLine %s %s %d)' % (K[k], ('None' if t < 0 else '(Some (%d)%%Z)' % t), b) for k, t, b in r['objs']['given']])
              for r in g) + '\n') for gi, g in enumerate(groups)]
    outs = coq_evals(jobs)
    nbad = ncmp = 0; untagged = 0
    for g, (rc, out) in zip(groups, outs):
        blocks = re.findall(r'(?s)=\s*(\[.*?\])\s*:\s*list \(list Z\)', out)
        if rc != 0 or len(blocks) != len(g):
            chk.tie_broken('correspondence', 'objs', 'model evaluation failed: ' + out[-600:]); continue
        for r, b in zip(g, blocks):
            rows = [[int(x) for x in re.findall(r'-?\d+', row)] for row in re.findall(r'\[([^\[\]]*)\]', b)]
            ncmp += 1
            o = r['objs']
            untagged += sum(1 for x in o['given'] if x[1] < 0)
            if [-2] not in rows:
                nbad += 1; chk.tie_broken('correspondence', 'objs', 'the model reader rejects the object options of %r' % r['argv']); continue
            cut = rows.index([-2]); mm, mw = rows[:cut], rows[cut + 1:]
            if mm != o['model']:
                nbad += 1; chk.tie_broken('correspondence', 'objs', 'objects of %r: real model %r, model reader %r' % (r['argv'], o['model'], mm))
            elif mw != o['written']:
                nbad += 1; chk.tie_broken('correspondence', 'objs', 'written objects of %r: real %r, model writer %r' % (r['argv'], o['written'], mw))
    chk.stages['objs'] = dict(command_lines=len(items), compared=ncmp, disagreements=nbad, untagged_objects=untagged)


def _rows(b):
    return [[int(x) for x in re.findall(r'-?\d+', row)] for row in re.findall(r'\[([^\[\]]*)\]', b)]

def run_loads(chk, results):
    """load numbering: the model writer (Model/LoadOrder.v) on the real model's lumped loads must give the load section
    of the real written text (defining options in the parser's order, attachments carrying the right number), the model
    reader the order of the loads of the real re-read model"""
    items = [r for r in results if r.get('lds')]
    if not all(vo_ok(f) for f in ('Corr/OptDriver.v', 'Model/LoadOrder.v')):
        chk.tie_broken('correspondence', 'loads', 'model (Model/LoadOrder.v) does not compile'); return
    per = 300
    groups = [items[k:k + per] for k in range(0, len(items), per)]
    jobs = [('lds_%d_%d' % (os.getpid(), gi), HEADER + '\n'.join(
              'Eval vm_compute in (loads_case %s).' % coq_list(['((%d)%%Z, %s)' % (k, zl(ids)) for k, ids in r['lds']['given']])
              for r in g) + '\n') for gi, g in enumerate(groups)]
    outs = coq_evals(jobs)
    nbad = ncmp = mixed = 0
    for g, (rc, out) in zip(groups, outs):
        blocks = re.findall(r'(?s)=\s*(\[.*?\])\s*:\s*list \(list Z\)', out)
        if rc != 0 or len(blocks) != len(g):
            chk.tie_broken('correspondence', 'loads', 'model evaluation failed: ' + out[-600:]); continue
        for r, b in zip(g, blocks):
            o = r['lds']; rows = _rows(b); ncmp += 1
            kinds = [k for k, _ in o['given']]
            if kinds != sorted(kinds): mixed += 1
            chk.add_case('lds:' + json.dumps(o['given']), len(o['given']) > 1, sample=dict(loads=len(o['given']), kinds=kinds))
            if 'unparsed' in o:
                nbad += 1; chk.notes.setdefault('failing_argv', []).append(r['argv'])
                chk.tie_broken('correspondence', 'loads', '%r: %s' % (r['argv'], o['unparsed'])); continue
            cut = rows.index([-2]); mw, mr = rows[:cut], rows[cut + 1:]
            if mw != o['written']:
                nbad += 1; chk.notes.setdefault('failing_argv', []).append(r['argv'])
                chk.tie_broken('correspondence', 'loads', 'written loads of %r: real %r, model writer %r' % (r['argv'], o['written'], mw))
            elif o['reread'] is not None and [x[0] for x in mr] != o['reread']:
                nbad += 1; chk.notes.setdefault('failing_argv', []).append(r['argv'])
                chk.tie_broken('correspondence', 'loads', 're-read loads of %r: real order %r, model reader %r' % (r['argv'], o['reread'], mr))
    chk.stages['loads'] = dict(command_lines=len(items), compared=ncmp, disagreements=nbad, registered_in_mixed_kind_order=mixed)

def run_srcs(chk, results):
    """sources: the model writer (Model/SourceOpts.v) on the real model's sources must give the source options of the real
    written text, the model reader the sources of the real re-read model"""
    items = [r for r in results if r.get('srcs')]
    if not all(vo_ok(f) for f in ('Corr/OptDriver.v', 'Model/SourceOpts.v')):
        chk.tie_broken('correspondence', 'srcs', 'model (Model/SourceOpts.v) does not compile'); return
    per = 300
    groups = [items[k:k + per] for k in range(0, len(items), per)]
    jobs = [('srcs_%d_%d' % (os.getpid(), gi), HEADER + '\n'.join(
              'Eval vm_compute in (srcs_case %s).' % coq_list(['((%d)%%Z, %s, %s)' % (v, zl(a), 'true' if d else 'false') for v, a, d in r['srcs']['given']])
              for r in g) + '\n') for gi, g in enumerate(groups)]
    outs = coq_evals(jobs)
    nbad = ncmp = 0; forms = dict(default=0, one_volt_single=0, several=0, per_object=0)
    for g, (rc, out) in zip(groups, outs):
        blocks = re.findall(r'(?s)=\s*(\[.*?\])\s*:\s*list \(list Z\)', out)
        if rc != 0 or len(blocks) != len(g):
            chk.tie_broken('correspondence', 'srcs', 'model evaluation failed: ' + out[-600:]); continue
        for r, b in zip(g, blocks):
            o = r['srcs']; rows = _rows(b); ncmp += 1
            gv = o['given']
            if any(d for _, _, d in gv): forms['default'] += 1
            if len(gv) == 1 and gv[0][0] == 1: forms['one_volt_single'] += 1
            if len(gv) > 1: forms['several'] += 1
            if any(len(a) == 2 for _, a, _ in gv): forms['per_object'] += 1
            chk.add_case('srcs:' + json.dumps(gv), True, sample=dict(sources=len(gv)))
            cut = rows.index([-2]); mw, mr = rows[:cut], rows[cut + 1:]
            if mw != o['written']:
                nbad += 1; chk.notes.setdefault('failing_argv', []).append(r['argv'])
                chk.tie_broken('correspondence', 'srcs', 'written sources of %r: real %r, model writer %r' % (r['argv'], o['written'], mw))
            elif o['reread'] is not None and mr != o['reread']:
                nbad += 1; chk.notes.setdefault('failing_argv', []).append(r['argv'])
                chk.tie_broken('correspondence', 'srcs', 're-read sources of %r: real %r, model reader %r' % (r['argv'], o['reread'], mr))
    chk.stages['srcs'] = dict(command_lines=len(items), compared=ncmp, disagreements=nbad, forms=forms)
