"""Correspondence stage `geom`: Model.Geometry (constructors, transformations,
equal/tapered segmentation, arc, helix) against the real segments."""
import random, re, json, os, math
from vlib import *
import gen

HEADER = '''From Coq Require Import ZArith List Bool PrimFloat.
Import ListNotations.
From PM Require Import Base.Num Base.FNum Base.Cplx Model.Taper Model.Topology Model.Geometry Corr.GeomDriver.
Set Printing Depth 10000000.
Set Printing Width 200.
Local Notation TR := (@TRot FNum).
Local Notation TT := (@TTrans FNum).
'''
def Fv(x): return fhex(float(x))
def opt(x): return 'None' if x is None else '(Some %s)' % Fv(x)
def zopt(x): return 'None' if x is None else '(Some (%d)%%Z)' % x
def v3(l): return '(%s, %s, %s)' % tuple(Fv(x) for x in l)

def coq_obj(w):
    if w['type'] == 'wire':
        tp = w.get('taper') or [0, None, None]
        return 'wire_obj %d %s %s %s %d %s %s (%d)%%Z' % (w['nseg'], v3(w['p1']), v3(w['p2']), Fv(w['r']), tp[0], opt(tp[1]), opt(tp[2]), w['tag'])
    if w['type'] == 'arc':
        return 'arc_obj %d %s %s %s %s (%d)%%Z' % (w['nseg'], Fv(w['radius']), Fv(w['ang1']), Fv(w['ang2']), Fv(w['r']), w['tag'])
    rx2 = w['rx1'] if w.get('rx2') is None else w['rx2']
    ry2 = w['ry1'] if w.get('ry2') is None else w['ry2']
    return 'helix_obj %d %s %s %s %s %s %s %s (%d)%%Z' % (w['nseg'], Fv(w['length']), Fv(w['turnlen']), Fv(w['r']),
                                                          Fv(w['rx1']), Fv(w['ry1']), Fv(rx2), Fv(ry2), w['tag'])

def coq_case(spec):
    objs = coq_list([coq_obj(w) for w in sorted(spec['wires'], key=lambda w: w['tag'])])
    ts = []
    for t in spec.get('transforms_unsorted', []):
        if t['op'] == 'rotate':
            ts.append('TR %s %s %s %s %s' % (Fv(t['key']), Fv(t['v'][0]), Fv(t['v'][1]), Fv(t['v'][2]), zopt(t.get('tag'))))
        else:
            ts.append('TT %s %s %s' % (Fv(t['key']), v3(t['v']), zopt(t.get('tag'))))
    scs = coq_list(['(%s, %s)' % (Fv(s['factor']), zopt(s.get('tag'))) for s in spec.get('scales', [])])
    return 'Eval vm_compute in (geom_case %s %s %s).' % (objs, coq_list(ts), scs)

def taper_probes():
    """every taper kind on thin and FAT wires (2.5 radii above the natural shortest segment), with no limit, a minimum
    below / above 2.5 radii, a maximum, both"""
    out = []
    k = 0
    for kind in (1, 2, 3):
        for n in (5, 10, 16):
            L = 1.0
            for r in (L / n / 1000, L / n / 12, L / n / 4):
                for tmin in (None, L / n / 400, L / n / 9, L / n / 2):
                    for tmax in (None, 1.6 * L / n):
                        w = gen.wire(n, [0.1, 0.2, 0.3], [0.1 + 0.6 * L, 0.2, 0.3 + 0.8 * L], r, tag=1, taper=[kind, tmin, tmax])
                        out.append(dict(id=10 ** 6 + k, seed=0, spec=dict(f=10.0, wires=[w], media=None, family='taper-probe', tagmode='explicit',
                                        sources=[], loads=[], transforms=[], transforms_unsorted=[], scales=[])))
                        k += 1
    return out

def arc_probes():
    """arcs whose count and span make (a2 - a1) / ((a2 - a1) / n) round above n: exactly n segments all the same"""
    out = []
    for k, (n, a1, a2) in enumerate(((61, 0, 360), (122, 0, 360), (7, 30, 150), (14, 30, 150), (28, 15, 75), (56, 30, 150), (47, 0, 60),
                                     (59, 0, 270), (94, 0, 60), (61, -45, 45), (49, 0, 180), (98, 10, 190), (107, 0, 90))):
        a = dict(type='arc', nseg=n, radius=1.11, ang1=float(a1), ang2=float(a2), r=0.001, tag=1)
        out.append(dict(id=2 * 10 ** 6 + k, seed=0, spec=dict(f=10.0, wires=[a], media=None, family='arc-probe', tagmode='explicit',
                        sources=[], loads=[], transforms=[], transforms_unsorted=[], scales=[])))
    return out

def run_stage(chk, rng, ncases, cases=None):
    cases = cases or (taper_probes() + arc_probes() + [dict(id=i, seed=rng.randrange(10 ** 9), spec=gen.gen_geometry(rng)) for i in range(ncases)])
    shards = [cases[k::NCPU] for k in range(NCPU) if cases[k::NCPU]]
    res = run_workers('geom', [dict(cases=s) for s in shards])
    results = []
    for ok, r in res:
        if not ok:
            chk.tie_broken('correspondence', 'geom', 'real code could not be run: ' + str(r)[-800:])
            continue
        results += r['results']
    results.sort(key=lambda r: r['id'])
    good = [r for r in results if 'obs' in r]
    errs = [r for r in results if 'error' in r]
    if not all(vo_ok(f) for f in ('Corr/GeomDriver.v', 'Model/Geometry.v', 'Model/Taper.v')):
        chk.tie_broken('correspondence', 'geom', 'model (Model/Geometry.v, Model/Taper.v) does not compile')
        return good, errs
    per = max(1, (len(good) + NCPU - 1) // NCPU)
    groups = [good[k:k + per] for k in range(0, len(good), per)]
    outs = coq_evals([('gm_%d_%d' % (os.getpid(), gi), HEADER + '\n'.join(coq_case(r['spec']) for r in g) + '\n') for gi, g in enumerate(groups)])
    ncmp = nbad = nobj = 0
    for g, (rc, out) in zip(groups, outs):
        blocks = re.findall(r'(?s)=\s*(\[.*?\])\s*:\s*list \(list float\)', out)
        if rc != 0 or len(blocks) != len(g):
            chk.tie_broken('correspondence', 'geom', 'model evaluation failed: ' + out[-600:])
            continue
        for r, b in zip(g, blocks):
            ncmp += 1
            lists = re.findall(r'\[([^\[\]]*)\]', b)
            objs = r['obs']['objs']
            bad = []
            if len(lists) != len(objs):
                bad.append('%d objects in the model, %d in the code' % (len(lists), len(objs)))
            for k, (lo, o) in enumerate(zip(lists, objs)):
                nobj += 1
                v = parse_floats(lo)
                if o.get('assertion'):
                    if not v or v[0] != -1:
                        bad.append('object %d: code raised AssertionError, model %r' % (k, v[:2]))
                    continue
                if not v or v[0] != 0:
                    bad.append('object %d: model outcome %r, code produced %d segments' % (k, v[:2], len(o['segs'])))
                    continue
                rr = float.fromhex(o['r'])
                if abs(v[1] - rr) > 1e-12 * abs(rr):
                    bad.append('object %d radius: code %r model %r' % (k, rr, v[1]))
                v = v[2:]
                if len(v) != 10 * len(o['segs']):
                    bad.append('object %d: %d segments in the code, %d in the model' % (k, len(o['segs']), len(v) // 10))
                    continue
                scale = max([abs(float.fromhex(x)) for s in o['segs'] for x in s['p1'] + s['p2']] + [1e-30])
                for si, s in enumerate(o['segs']):
                    real = [float.fromhex(x) for x in s['p1'] + s['p2']] + [float.fromhex(s['len'])] + [float.fromhex(x) for x in s['dir']]
                    mod = v[10 * si: 10 * si + 10]
                    tol = [1e-11 * scale] * 6 + [1e-11 * scale + 1e-9 * real[6]] + [1e-9] * 3
                    if any(abs(a - c) > t for a, c, t in zip(real, mod, tol)):
                        bad.append('object %d segment %d: code %r model %r' % (k, si, real, mod)); break
            if bad:
                nbad += 1
                chk.tie_broken('correspondence', 'geom', 'case %d: %s' % (r['id'], '; '.join(bad[:2])))
    chk.stages['geom'] = dict(cases=len(cases), real_ok=len(good), real_errors=len(errs), compared=ncmp, objects=nobj, disagreements=nbad)
    return good, errs
