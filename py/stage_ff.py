"""Correspondence stage `ff`: Model.FarField evaluated by coqc on the real
code's pulses/currents/environment, compared with far_field.e_theta/e_phi/gain."""
import random, re, json, os, math
from vlib import *
import gen, stage_lin

HEADER = '''From Coq Require Import ZArith List Bool PrimFloat.
Import ListNotations.
From PM Require Import Base.Num Base.FNum Base.Cplx Gen.Extracted Model.FarField Corr.FFDriver.
Set Printing Depth 10000000.
Set Printing Width 200.
Local Notation P := (@mkFP FNum).
Local Notation E := (@mkFE FNum).
'''
def F(h): return fhex(float.fromhex(h))
def B(b): return 'true' if b else 'false'
def cx(h): return '(%s, %s)' % (F(h[0]), F(h[1]))
def v3(l): return '(%s, %s, %s)' % tuple(F(x) for x in l)

def coq_pulse(p):
    return 'P %s (%s, %s) (%s, %s) (%s, %s) (%s, %s)' % (
        v3(p['point']), F(p['len'][0]), F(p['len'][1]), v3(p['dir'][0]), v3(p['dir'][1]),
        F(p['sgn'][0]), F(p['sgn'][1]), B(p['gnd'][0]), B(p['gnd'][1]))

def coq_env(e, f):
    media = coq_list(['mk_medium %s %s %s %s %s %s' % (F(f), B(m['ideal']), F(m['perm']), F(m['cond']), F(m['coord']), F(m['height']))
                      for m in e['media']])
    return '(E %s %s %s %s %s %s)' % (B(e['ground']), B(e['real']), B(e['circ']), F(e['nr']), F(e['rr']), media)

def coq_case(o):
    dirs = coq_list(['(%s, %s)' % (F(r['zen']), F(r['azi'])) for r in o['rows']])
    return 'Eval vm_compute in (ff_case %s %s %s %s %s %s %s %s).' % (
        F(o['w']), coq_env(o['env'], o['f']), coq_list([coq_pulse(p) for p in o['pulses']]),
        coq_list([cx(v) for v in o['cur']]), F(o['power']), F(o['ff_power']), F(o['dist']), dirs)

def run_stage(chk, rng, ncases, grounds=(None, None, 'ideal', 'ideal', 'real', 'real'), task='ff', tol=2e-7):
    cases = stage_lin.gen_cases(rng, ncases, grounds=grounds)
    shards = [cases[k::NCPU] for k in range(NCPU) if cases[k::NCPU]]
    res = run_workers(task, [dict(cases=s) for s in shards])
    results = []
    for ok, r in res:
        if not ok:
            chk.tie_broken('correspondence', 'ff', 'real code could not be run: ' + str(r)[-800:])
            continue
        results += r['results']
    results.sort(key=lambda r: r['id'])
    good = [r for r in results if 'obs' in r]
    errs = [r for r in results if 'error' in r]
    model_ok = all(vo_ok(f) for f in ('Corr/FFDriver.v', 'Model/FarField.v', 'Gen/Extracted.v'))
    vals = {}
    if model_ok and good:
        per = max(1, (len(good) + NCPU - 1) // NCPU)
        groups = [good[k:k + per] for k in range(0, len(good), per)]
        outs = coq_evals([('ff_%d_%d' % (os.getpid(), gi), HEADER + '\n'.join(coq_case(r['obs']) for r in g) + '\n')
                          for gi, g in enumerate(groups)])
        for g, (rc, out) in zip(groups, outs):
            blocks = re.findall(r'(?s)=\s*(\[.*?\])\s*:\s*list float', out)
            if rc != 0 or len(blocks) != len(g):
                chk.tie_broken('correspondence', 'ff', 'model evaluation failed: ' + out[-600:])
                continue
            for r, b in zip(g, blocks):
                vals[r['id']] = parse_floats(b)
    elif not model_ok:
        chk.tie_broken('correspondence', 'ff', 'model (Model/FarField.v, Corr/FFDriver.v) does not compile')
    nbad = ndir = 0
    for r in good:
        v = vals.get(r['id'])
        if v is None:
            continue
        o = r['obs']
        rows = o['rows']
        if len(v) != 7 * len(rows):
            chk.tie_broken('correspondence', 'ff', 'case %d: model returned %d values for %d directions' % (r['id'], len(v), len(rows)))
            continue
        emax = max([x for x in [abs(complex(*[float.fromhex(x) for x in q['eth']])) for q in rows]
                   + [abs(complex(*[float.fromhex(x) for x in q['eph']])) for q in rows] if x == x] + [1e-300])
        bad = []
        for k, q in enumerate(rows):
            ndir += 1
            et = complex(*[float.fromhex(x) for x in q['eth']]); ep = complex(*[float.fromhex(x) for x in q['eph']])
            mt = complex(v[7 * k], v[7 * k + 1]); mp = complex(v[7 * k + 2], v[7 * k + 3])
            def same(a, b):
                return abs(a - b) <= tol * emax or (a != a and b != b)
            if not same(et, mt) or not same(ep, mp):
                bad.append('E at (zen %.4g, azi %.4g): code (%r, %r) model (%r, %r)' % (
                    float.fromhex(q['zen']), float.fromhex(q['azi']), et, ep, mt, mp))
            for j in range(3):
                g = float.fromhex(q['gain'][j]); mg = v[7 * k + 4 + j]
                # dB values: compare where the field component is not a rounding residue
                if g <= -200 and mg <= -200:
                    continue
                if not abs(g - mg) <= 1e-6 and not (g != g and mg != mg):
                    comp = (abs(et), abs(ep), math.hypot(abs(et), abs(ep)))[j]
                    if comp > 1e-6 * emax:
                        bad.append('gain[%d] at (zen %.4g, azi %.4g): code %r model %r' % (j, float.fromhex(q['zen']), float.fromhex(q['azi']), g, mg))
        if bad:
            nbad += 1
            chk.tie_broken('correspondence', 'ff', 'case %d (%s, %s): %s' % (
                r['id'], r['spec']['family'], 'real ground' if o['env']['real'] else ('ideal ground' if o['env']['ground'] else 'free space'), '; '.join(bad[:2])))
    chk.stages['ff'] = dict(cases=len(cases), real_ok=len(good), real_errors=len(errs), compared=len(vals),
                            directions=ndir, disagreements=nbad)
    return good, errs
