#!/usr/bin/env python3
"""Writes the table of seeded changes (DESIGN.md section 12) from seeded/*/meta.json and detect.json."""
import json, glob, os, re
ROOT = os.path.dirname(os.path.dirname(os.path.abspath(__file__)))
rows = []
for d in sorted(glob.glob(os.path.join(ROOT, 'seeded', '*', ''))):
    n = os.path.basename(d.rstrip('/'))
    meta = json.load(open(d + 'meta.json'))
    det = json.load(open(d + 'detect.json')) if os.path.exists(d + 'detect.json') else {}
    what = re.sub(r'\s+', ' ', meta.get('summary', ''))[:170]
    cells = []
    for k, v in sorted(det.items()):
        viol = [l for l in v.get('lines', []) if l.startswith('VIOLATION')]
        sig = (v.get('detail') or {}).get('signature') if isinstance(v.get('detail'), dict) else None
        if viol:
            how = 'no-failing-input-found' if all('no-failing-input-found' in l for l in viol) else 'failing input'
            br = (v.get('detail') or {}).get('broken') if isinstance(v.get('detail'), dict) else None
            s = k.split('/')[0] + ': VIOLATION (' + how + ')'
            if sig: s += ' ' + ', '.join('%s=%s' % (a, b) for a, b in sig.items() if a != 'stage')[:90]
            if br: s += '; tie broken: ' + ', '.join(sorted({b[1] if isinstance(b, (list, tuple)) else str(b) for b in br}))[:60]
            cells.append(s)
        else:
            cells.append(k.split('/')[0] + ': not detected')
    if meta.get('obsolete'): cells.append('obsolete: ' + meta['obsolete'][:120])
    rows.append('| %s | %s | %s |' % (n, what.replace('|', '/'), '<br>'.join(cells).replace('|', '/') or 'not run'))
out = ['Sub-agents that saw only the property text and a scratch worktree produced the changes; each was confirmed independently '
       '(`bin/confirm_seed`: applies, unedited suite passes, its own demonstration fails with and passes without it) and is kept in '
       '`/verif/seeded/<id>/` (patch.diff, demo.py, meta.json, detect.json). `bin/seedrun <id> quick` applies the patch to `/repo`, '
       'runs the quick check of the property, restores `/repo` and the evidence files.  First round: Cxx-1, Cxx-2 for all twenty '
       'properties; second round: Cxx-3, Cxx-4 for C02, C04, C12, C13, C15, C18, C19, C20; third round: Cxx-3, Cxx-4 for the other twelve; '
       'fourth round: Cxx-5, Cxx-6 (the sub-agents were told which changes existed already, to get different mechanisms).  Checks that missed a change at first were '
       'strengthened (generator families or deterministic probes) until they caught it with a concrete input: C02-1/2 (oracle rebuilt '
       'from touching segments), C03, C05, C06 (new families), C12-2, C15-4 (three media), C18-1 (fuzzy-joined ends), C18-4 (nearly '
       'grounded ends), C19-3 (distributed loads in reports), C20-1 / C20-4 (row correspondence, option grid).  Fifth round: Cxx-7, Cxx-8 for all twenty; '
       'sixth round: Cxx-9, Cxx-10 for C02, C04, C09, C10, C11, C13, C15, C18, C19, C20.  Of the twenty changes of the sixth round eleven were caught as the checks '
       'stood; the other nine needed: C04-9 a near field after a frequency step, C11-10 ground constants changed in place on a solved object, C18-10 a load '
       'attached twice to one pulse, C09-9 / C09-10 junctions a few millimetres above a ground plane with the grounded ends decided by the oracle from the '
       'segment ends, C10-10 azimuth sweeps containing phi and -phi, C13-9 arcs whose count makes a floating-point `arange` overshoot, C19-9 the media block of '
       'the report with three media, C19-10 the connection columns of grounded pulses under tags that are not positions, C20-9 downward sweeps that reach 0 MHz, '
       'C20-10 an output path that is a directory (and the OSError subclasses in the translator of `main`, so that a narrowed handler is an unsafe site with a '
       'named line rather than a translator failure).  Seventh round (after the models of the media options, the ENVIRONMENT block and the connection columns were added): '
       'Cxx-11, Cxx-12 for C15 and C19, the sub-agents asked to aim one change each at media / report sections.  C15-12 was caught as the checks stood; C15-11 (an interface '
       'coordinate of exactly 0 treated as not given) needed coordinates 0 and below in the generator of the `media` stage, C19-12 (type of boundary taken from the radial '
       'screen) the VALUE of the boundary line in `Model/Env.v` (it had only the presence of the line), C19-11 (END CONNECTION of the per-object table from the position) '
       'the per-object table in the report oracle.  Eighth round: Cxx-9, Cxx-10 for C08, C12, C17: three of six caught as the checks stood; C12-9 (per-coordinate instead of '
       'Euclidean end distance) needed probes with offsets oblique to the axes, C08-10 (a per-object resistivity read as a conductivity in main) the resistivity form '
       'of the per-object option in the command-line leg of the oracle, C17-9 (one load twice on one pulse acting once) and C17-10 (a per-object distributed load at '
       'the junction pulse of a later object joined by its first end) the effect of the attachments on the matrix diagonal and a per-object skin-effect load in the '
       'command-line phase of `addr`.  After that every seed but the obsolete C20-2 is reported with a concrete failing input.', '',
       '| seed | change (summary of the sub-agent) | result of the quick check |', '|------|------|------|'] + rows
txt = '\n'.join(out)
p = os.path.join(ROOT, 'DESIGN.md')
s = open(p).read()
a = s.index('## 12. Seeded changes: which checks catch which') + len('## 12. Seeded changes: which checks catch which')
b = s.index('## 13. False alarms that were corrected')
ref = []
import glob as _g
for d in sorted(_g.glob(os.path.join(ROOT, 'refactors', '*', 'result.json'))):
    n = os.path.basename(os.path.dirname(d)); res = json.load(open(d))
    what = ''
    wp = os.path.join(os.path.dirname(d), 'what.txt')
    if os.path.exists(wp): what = re.sub(r'\s+', ' ', open(wp).read())[:200]
    al = []
    for k, v in sorted(res.items()):
        if v['rc']:
            nofail = all('no-failing' in l for l in v['violations'])
            al.append('%s (%s)' % (k, 'tie broken, no failing input' if nofail else 'FAILING INPUT REPORTED'))
    ref.append('| %s | %s | %s |' % (n, what.replace('|', '/'), ', '.join(al) or 'none'))
txt += ('\n\n### 12a. Behaviour-preserving refactorings: which checks raise an alarm\n\n'
        'Three sub-agents wrote twelve harmless refactorings (a thirteenth, `media-writer-join`, is mine: the media writer and the report lines of a medium rewritten, run against the two models added last; after the eighth round R2-3 and R3-2 were run again against C08, C12, C15, C17, C19: no alarm; R1-3 rewrites `Medium.as_cmdline` as it was before repair 9469538 and no longer applies) (front end / option writers; numerical core; geometry, topology, formatter), each with '
        'a differential test of its own; `bin/refrun <name> <diff>` applies one to `/repo`, runs the quick checks and restores `/repo`.  The table is '
        'the LAST run of each (after the translator fallback of §4.1 and the interprocedural walk of X19 were added; before them R2-1, R2-2, R2-4 broke '
        'the translator contract in C01, C02, C03, C07, C08, C10, C11, C14 and R1-1, R1-2, R1-4 the main-flow translator in C20 -- all as '
        '"tie broken, no failing input").  No oracle and no correspondence stage reported a failing input on any of them at any time.\n\n'
        '| refactoring | what | alarms of the last run |\n|------|------|------|\n' + '\n'.join(ref))
s = s[:a] + '\n\n' + txt + '\n\n' + s[b:]
open(p, 'w').write(s)
print(len(rows), 'seeds')
