#!/usr/bin/env python3
"""Runs the REAL pymininec (PYTHONPATH=/repo) on generated inputs and dumps
observables as JSON (floats as hex strings).  One task per correspondence
stage / search oracle; see py/tasks/*.py."""
import sys, json, os, importlib, traceback
sys.path.insert(0, os.path.dirname(os.path.abspath(__file__)))

def main():
    task, fin, fout = sys.argv[1:4]
    payload = json.load(open(fin))
    mod = importlib.import_module('tasks.' + task.split('.')[0])
    fn = getattr(mod, task.split('.')[1] if '.' in task else 'run')
    res = fn(payload)
    json.dump(res, open(fout, 'w'))

if __name__ == '__main__':
    try:
        main()
    except BaseException:
        traceback.print_exc()
        sys.exit(3)
