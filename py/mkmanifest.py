#!/usr/bin/env python3
"""Writes /verif/MANIFEST.json from the table below (kept in one place so the
file is always valid)."""
import json, os
ROOT = os.path.dirname(os.path.dirname(os.path.abspath(__file__)))
BASE_CMD = "cd /repo && /venv/bin/python -m pytest -ra -q -p no:cacheprovider --timeout=900 --continue-on-collection-errors"
NOTE_STD = ("Trusted: Coq 8.16.1 kernel and vm_compute; stdlib axioms listed per theorem in the evidence "
            "(ClassicalDedekindReals.sig_not_dec/sig_forall_dec, functional_extensionality_dep, Classical_Prop.classic via Reals/Coquelicot); "
            "the fail-closed translator py/translate.py; the correspondence harness (generator, hex-float transport); "
            "numpy/scipy/libm/CPython formatting are modelled, not verified.")
CHECKS = {}
def add(pid, text, technique, design_ref, note=NOTE_STD, thorough=True):
    CHECKS[pid] = dict(
        property_id=pid,
        quick_cmd="bin/vcheck %s quick" % pid,
        evidence_file="/verif/evidence/%s.json" % pid,
        replay_cmd_template="bin/vcheck %s --replay {path}" % pid,
        engine="coq-model+correspondence",
        level_claimed=dict(category="proof", text=text, design_ref=design_ref),
        level_note=note, technique=technique)
    if thorough:
        CHECKS[pid]["thorough_cmd"] = "bin/vcheck %s thorough" % pid

add("C16",
    "Theorems for all starts/steps/counts: far-field rows (any numeric instance incl. binary64), near-field point order and count, "
    "axis count exact over R for every non-zero increment and on binary64 under the explicit numpy-arange length condition; "
    "the grid expressions are re-extracted from the source on every run and the numpy array calls around them are tied by a "
    "bit-exact correspondence on generated grids.",
    "Rocq proof over translator-extracted definitions + vm_compute correspondence", "DESIGN.md §6 C16")

NOT_YET = {
}
def main():
    import importlib.util
    props = [json.loads(l)['id'] for l in open(os.path.join(ROOT, 'properties.jsonl'))]
    extra = os.path.join(ROOT, 'py', 'manifest_entries.py')
    if os.path.exists(extra):
        spec = importlib.util.spec_from_file_location('me', extra)
        me = importlib.util.module_from_spec(spec); spec.loader.exec_module(me)
        me.register(add, NOTE_STD)
        NOT_YET.update(getattr(me, 'NOT_APPLICABLE', {}))
    na = [dict(property_id=p, reason=NOT_YET.get(p, "not yet claimed: model/theorems for this property are still being built (see DESIGN.md build order)"))
          for p in props if p not in CHECKS]
    man = dict(
        version=1,
        setup_cmd="bin/setup",
        hooks=dict(guard="PYMININEC_VERIF", enable="none needed: no instrumentation hooks are compiled into /repo (guard name reserved)",
                   baseline_off_cmd=BASE_CMD, source_commits=[], add_only=True),
        engines=[dict(name="coq-model+correspondence", path="/verif/bin/vcheck",
                      serves_properties=sorted(CHECKS), kind_free_text="Rocq/Coq 8.16.1 theorems over a Gallina model (type class Num: reals for theorems, primitive floats for execution), fail-closed ast translator, vm_compute correspondence against the real code, per-property search oracles")],
        checks=[CHECKS[p] for p in sorted(CHECKS)],
        not_applicable=na,
        notes="Repairs of genuine defects are unguarded 'fix:' commits in /repo, listed in /verif/known_findings.json as fixed entries; remaining defects are listed there as known.")
    json.dump(man, open(os.path.join(ROOT, 'MANIFEST.json'), 'w'), indent=1)
    print('MANIFEST: %d checks, %d not claimed' % (len(CHECKS), len(na)))
if __name__ == '__main__':
    main()
