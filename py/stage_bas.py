"""Correspondence stage `bas` (C18): the prompt automaton of Model/Basic.v is
run by coqc on the tokenised REAL text of as_basic_input and must recover the
counts and choices of the real model; the model writer's answer sequence must
be the real one (data values are wildcards)."""
import re, os, json
from vlib import *

HEADER = '''From Coq Require Import ZArith List Bool Arith.
Import ListNotations.
From PM Require Import Model.Basic Corr.BasDriver.
Set Printing Depth 10000000.
Set Printing Width 200.
'''
LETTERS = set('DNYCPVQEH')
def tokenise(text):
    toks = []
    for ln in text.split('\n'):
        s = ln.strip()
        if s in LETTERS: toks.append('TW %d' % ord(s)); continue
        parts = s.split(',')
        try:
            v = [float(x) for x in parts]
        except ValueError:
            toks.append('TText'); continue
        def iv(x): return int(x) if x == int(x) and abs(x) < 10 ** 5 else -999998
        toks.append('TNum %d (%d) (%d)' % (len(v), iv(v[0]), iv(v[-1])))
    return toks

def shape_of(x):
    s = x['shape']
    env = {'free': 'EFree', 'perfect': 'EPerfect'}.get(s['env'][0]) or '(EMedia %d %s %d)' % (s['env'][1], 'true' if s['env'][2] else 'false', s['env'][3])
    lo = 'LNone' if s['loads'][0] == 'none' else ('(LImp %d)' % s['loads'][1] if s['loads'][0] == 'imp' else '(LS %s)' % coq_list(['%d' % o for o in s['loads'][1]]))
    ff = 'FNone' if s['ff'] is None else ('(FDb %s)' % ('true' if s['ff'][1] else 'false') if s['ff'][0] == 'db' else '(FAbs %s %s)' % ('true' if s['ff'][1] else 'false', 'true' if s['ff'][2] else 'false'))
    nf = 'None' if s['nf'] is None else '(Some %s)' % ('true' if s['nf'] else 'false')
    return '(mkShape %s %d %d %s %s %s)' % (env, s['wires'], s['sources'], lo, ff, nf)

def run_bas(chk, results):
    items = [x for x in results if x.get('shape') and x.get('text')]
    if not all(vo_ok(f) for f in ('Corr/BasDriver.v', 'Model/Basic.v')):
        chk.tie_broken('correspondence', 'bas', 'model (Model/Basic.v) does not compile'); return
    per = 100
    groups = [items[k:k + per] for k in range(0, len(items), per)]
    jobs = [('bas_%d_%d' % (os.getpid(), gi), HEADER + '\n'.join(
              'Eval vm_compute in (bas_case %s %s).' % (coq_list(tokenise(x['text'])), shape_of(x)) for x in g) + '\n') for gi, g in enumerate(groups)]
    outs = coq_evals(jobs)
    nbad = ncmp = 0
    for g, (rc, out) in zip(groups, outs):
        blocks = re.findall(r'(?s)=\s*(\[.*?\])\s*:\s*list Z', out)
        if rc != 0 or len(blocks) != len(g):
            chk.tie_broken('correspondence', 'bas', 'model evaluation failed: ' + out[-600:]); continue
        for x, b in zip(g, blocks):
            v = [int(t) for t in re.findall(r'-?\d+', b)]
            ncmp += 1
            if v[0] != 1:
                nbad += 1
                why = {0: 'finds other counts / choices than the model has', -1: 'rejects the answers', -2: 'finds answers left after Q'}[v[0]]
                chk.tie_broken('correspondence', 'bas', 'the prompt automaton %s: %r version %s %r' % (why, x['argv'], x['version'], x.get('kw')))
            elif v[1] != 1:
                nbad += 1
                chk.tie_broken('correspondence', 'bas', 'the model writer\'s answer sequence is not the real one: %r version %s %r' % (x['argv'], x['version'], x.get('kw')))
    chk.stages['bas'] = dict(texts=len(items), compared=ncmp, disagreements=nbad)
