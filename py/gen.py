"""Seeded generator of antenna descriptions ("specs", plain JSON) shared by all
correspondence stages and search oracles, plus builders that turn a spec into
a real Mininec object (API) or an argument list (command line).

Every random choice comes from the random.Random instance passed in."""
import math, json

C_MHZ = 299.8

def _unit(rng):
    while True:
        v = [rng.uniform(-1, 1) for _ in range(3)]
        n = math.sqrt(sum(x * x for x in v))
        if 0.2 < n <= 1:
            return [x / n for x in v]

def _perp(rng, d, min_angle_deg=40):
    """a unit vector making at least min_angle with +-d"""
    c = math.cos(math.radians(min_angle_deg))
    while True:
        u = _unit(rng)
        if abs(sum(a * b for a, b in zip(u, d))) <= c:
            return u

def _add(p, d, l):
    return [p[i] + d[i] * l for i in range(3)]

def wire(nseg, p1, p2, r, tag=None, taper=None):
    return dict(type='wire', nseg=nseg, p1=[float(x) for x in p1], p2=[float(x) for x in p2],
                r=float(r), tag=tag, taper=taper)

def gen_antenna(rng, family=None, ground=None, max_pulses=36, tags='auto'):
    """Returns a spec without sources/loads. ground: None (free), 'ideal',
    'real'; if ground is not None some families put wires on the ground."""
    f = rng.choice([3.5, 7.0, 7.15, 14.2, 21.0, 28.5, 50.0, 144.0, rng.uniform(1, 300)])
    lam = C_MHZ / f
    fams = ['dipole', 'bent', 'star', 'loop', 'two', 'chain', 'gapped', 'taperjoin']
    if ground:
        fams = ['mono', 'invl', 'tee', 'sloper', 'dipole_h', 'two_g', 'mono2']
    family = family or rng.choice(fams)
    seglen = lam * rng.uniform(1 / 60.0, 1 / 14.0)
    rad = lambda sl: sl / rng.uniform(10, 200)
    wires = []
    def W(n, p1, p2, r=None, **kw):
        sl = math.dist(p1, p2) / n
        wires.append(wire(n, p1, p2, r if r is not None else rad(sl), **kw))
    def flip(w):
        if rng.random() < 0.5:
            w['p1'], w['p2'] = w['p2'], w['p1']
    org = [rng.uniform(-3, 3) * lam * 0.1 for _ in range(3)] if not ground else [rng.uniform(-1, 1) * lam * 0.1, rng.uniform(-1, 1) * lam * 0.1, 0.0]
    if family == 'dipole':
        n = rng.randint(3, 14)
        d = _unit(rng)
        W(n, org, _add(org, d, n * seglen))
    elif family == 'bent':
        n1, n2 = rng.randint(1, 7), rng.randint(1, 7)
        d1 = _unit(rng); d2 = _perp(rng, d1)
        s2 = seglen * rng.uniform(0.6, 1.6)
        j = _add(org, d1, n1 * seglen)
        W(n1, org, j); W(n2, j, _add(j, d2, n2 * s2))
        for w in wires: flip(w)
    elif family == 'star':
        k = rng.randint(3, 5)
        dirs = []
        while len(dirs) < k:
            u = _unit(rng)
            if all(sum(a * b for a, b in zip(u, v)) < math.cos(math.radians(40)) for v in dirs):
                dirs.append(u)
        for u in dirs:
            n = rng.randint(1, 5)
            W(n, org, _add(org, u, n * seglen * rng.uniform(0.7, 1.4)))
        for w in wires: flip(w)
        rng.shuffle(wires)
    elif family == 'loop':
        n = rng.randint(1, 4)
        a = n * seglen
        d1 = _unit(rng); d2 = _perp(rng, d1, 85)
        # orthogonalise d2
        dot = sum(x * y for x, y in zip(d1, d2))
        d2 = [y - dot * x for x, y in zip(d1, d2)]
        nn = math.sqrt(sum(x * x for x in d2)); d2 = [x / nn for x in d2]
        p = [org, _add(org, d1, a), _add(_add(org, d1, a), d2, a), _add(org, d2, a)]
        for i in range(4):
            W(n, p[i], p[(i + 1) % 4], r=seglen / 50)
        for w in wires: flip(w)
        if rng.random() < 0.5: rng.shuffle(wires)
    elif family == 'two':
        n1, n2 = rng.randint(3, 9), rng.randint(3, 9)
        d = _unit(rng); off = _perp(rng, d, 80)
        W(n1, org, _add(org, d, n1 * seglen))
        o2 = _add(org, off, lam * rng.uniform(0.08, 0.3))
        W(n2, o2, _add(o2, d, n2 * seglen * rng.uniform(0.8, 1.1)))
    elif family == 'chain':
        k = rng.randint(2, 4)
        p = org; d = _unit(rng)
        for i in range(k):
            n = rng.randint(1, 5)
            q = _add(p, d, n * seglen * rng.uniform(0.7, 1.3))
            W(n, p, q)
            p = q; d = _perp(rng, d)
        for w in wires: flip(w)
    elif family == 'gapped':
        # two collinear wires whose facing ends are close but NOT joined (5..20 x the matching tolerance)
        n1, n2 = rng.randint(2, 6), rng.randint(2, 6)
        d = _unit(rng)
        e1 = _add(org, d, n1 * seglen)
        gap = seglen * rng.choice([0.005, 0.02])
        s2 = _add(e1, d, gap)
        W(n1, org, e1, r=seglen / 100); W(n2, s2, _add(s2, d, n2 * seglen), r=seglen / 100)
        for w in wires: flip(w)
    elif family == 'taperjoin':
        # a tapered wire (first and last segments differ) with a second wire joined to one of its ends,
        # all four end-to-end combinations and both orders
        n1, n2 = rng.randint(3, 7), rng.randint(2, 5)
        d1 = _unit(rng); d2 = _perp(rng, d1)
        a = org; b = _add(org, d1, n1 * seglen)
        W(n1, a, b, r=seglen / 150); wires[-1]['taper'] = [rng.choice([1, 2]), None, None]
        if rng.random() < 0.4:
            # limits: the taper saturates, so the wire has a uniform region next to the tapered one
            wires[-1]['nseg'] = n1 = rng.randint(7, 11)
            ln = n1 * seglen
            wires[-1]['p2'] = b = _add(org, d1, ln)
            wires[-1]['taper'] = [rng.choice([1, 2, 3]), ln / n1 * rng.uniform(0.05, 0.2), ln / n1 * rng.uniform(1.1, 1.6)]
        j = rng.choice([a, b])
        W(n2, j, _add(j, d2, n2 * seglen * rng.uniform(0.8, 1.3)), r=seglen / 80)
        for w in wires: flip(w)
        if rng.random() < 0.5: wires.reverse()
    elif family == 'mono':
        n = rng.randint(2, 10)
        W(n, org, _add(org, [0, 0, 1], n * seglen))
        flip(wires[0])
    elif family == 'mono2':
        n = rng.randint(2, 6)
        W(n, org, _add(org, [0, 0, 1], n * seglen))
        o2 = _add(org, [1, 0, 0], lam * rng.uniform(0.1, 0.3))
        n2 = rng.randint(2, 6)
        W(n2, o2, _add(o2, [0, 0, 1], n2 * seglen))
        for w in wires: flip(w)
    elif family == 'sloper':
        n = rng.randint(2, 8)
        el = math.radians(rng.uniform(25, 90)); az = rng.uniform(0, 2 * math.pi)
        d = [math.cos(el) * math.cos(az), math.cos(el) * math.sin(az), math.sin(el)]
        W(n, org, _add(org, d, n * seglen))
        flip(wires[0])
    elif family == 'invl':
        n1, n2 = rng.randint(2, 6), rng.randint(1, 6)
        top = _add(org, [0, 0, 1], n1 * seglen)
        az = rng.uniform(0, 2 * math.pi)
        W(n1, org, top); W(n2, top, _add(top, [math.cos(az), math.sin(az), 0], n2 * seglen * rng.uniform(0.7, 1.3)))
        for w in wires: flip(w)
        if rng.random() < 0.5: wires.reverse()
    elif family == 'tee':
        n1, n2, n3 = rng.randint(2, 5), rng.randint(1, 4), rng.randint(1, 4)
        top = _add(org, [0, 0, 1], n1 * seglen)
        az = rng.uniform(0, 2 * math.pi); u = [math.cos(az), math.sin(az), 0]
        W(n1, org, top); W(n2, top, _add(top, u, n2 * seglen)); W(n3, top, _add(top, u, -n3 * seglen))
        for w in wires: flip(w)
        rng.shuffle(wires)
    elif family == 'dipole_h':
        n = rng.randint(3, 10)
        h = max(lam * rng.uniform(0.1, 0.5), 2 * seglen)
        az = rng.uniform(0, 2 * math.pi); u = [math.cos(az), math.sin(az), 0]
        o = [org[0], org[1], h]
        W(n, o, _add(o, u, n * seglen))
    elif family == 'two_g':
        n = rng.randint(2, 6)
        W(n, org, _add(org, [0, 0, 1], n * seglen))
        h = max(lam * rng.uniform(0.15, 0.4), 2 * seglen)
        o = [org[0] + lam * 0.2, org[1], h]
        n2 = rng.randint(3, 7)
        W(n2, o, _add(o, [0, 1, 0], n2 * seglen))
    else:
        raise ValueError(family)
    # tags
    if tags == 'auto':
        mode = rng.choice(['none', 'none', 'explicit', 'gaps', 'perm', 'mixed', 'lowmixed'])
    else:
        mode = tags
    k = len(wires)
    if mode == 'explicit':
        for i, w in enumerate(wires): w['tag'] = i + 1
    elif mode == 'gaps':
        t = 0
        for w in wires:
            t += rng.randint(1, 4); w['tag'] = t
    elif mode == 'perm':
        ts = rng.sample(range(1, 3 * k + 1), k)
        for w, t in zip(wires, ts): w['tag'] = t
    elif mode == 'mixed':
        ts = rng.sample(range(1, 2 * k + 2), k)
        for w, t in zip(wires, ts):
            w['tag'] = t if rng.random() < 0.5 else None
    elif mode == 'lowmixed':
        # untagged objects first, then small explicit tags: the automatic tags must avoid the explicit ones given later
        ts = rng.sample(range(1, k + 1), k)
        for i, (w, t) in enumerate(zip(wires, ts)):
            w['tag'] = None if (i == 0 or rng.random() < 0.4) else t
    media = None
    if ground == 'ideal':
        media = []
    elif ground == 'real':
        nm = rng.choice([1, 1, 2, 3])
        media = []
        x = 0.0
        for i in range(nm):
            x += lam * rng.uniform(0.2, 3)
            media.append(dict(perm=rng.choice([3, 5, 13, 20, 80, rng.uniform(1, 80)]),
                              cond=10 ** rng.uniform(-4, 1), height=0.0 if i == 0 else -rng.choice([0, 0, 1, 2.5]),
                              coord=x if i < nm - 1 else None))
        bnd = rng.choice(['linear', 'circular'])
        rad_ = None
        if nm > 1 and rng.random() < 0.4:
            bnd = 'circular'
            rad_ = dict(nradials=rng.choice([4, 16, 60, 120]), radius=rng.choice([0.001, 0.002]))
        for md in media:
            md['boundary'] = bnd
        if rad_:
            media[0].update(rad_)
    return dict(f=f, wires=wires, media=media, family=family, tagmode=mode, sources=[], loads=[])

# ------------------------------------------------------------ real objects
def build(spec):
    """Spec -> real Mininec object (sources and loads registered)."""
    from mininec import mininec as M
    geo = []
    for w in spec['wires']:
        if w['type'] == 'wire':
            g = M.Wire(w['nseg'], *w['p1'], *w['p2'], w['r'], tag=w.get('tag'))
            if w.get('taper'):
                g.segtype = w['taper'][0]
                g.taper_min = w['taper'][1]
                g.taper_max = w['taper'][2]
        elif w['type'] == 'arc':
            g = M.Arc(w['nseg'], w['radius'], w['ang1'], w['ang2'], w['r'], tag=w.get('tag'))
        elif w['type'] == 'helix':
            g = M.Helix(w['nseg'], w['length'], w['turnlen'], w['r'], w['rx1'], w['ry1'],
                        w.get('rx2'), w.get('ry2'), tag=w.get('tag'))
        geo.append(g)
    cont = M.Geo_Container(None, geo)
    cont.compute_tags()
    for t in spec.get('transforms', []):
        if t['op'] == 'rotate':
            cont.rotate(t['key'], t['v'], t.get('tag'))
        elif t['op'] == 'translate':
            cont.translate(t['key'], t['v'], t.get('tag'))
    for t in spec.get('scales', []):
        cont.scale(t['factor'], t.get('tag'))
    media = None
    if spec.get('media') is not None:
        if not spec['media']:
            media = [M.Medium(0, 0)]
        else:
            media = []
            for md in spec['media']:
                d = dict(boundary=md.get('boundary', 'linear'))
                if md.get('coord') is not None:
                    d['coord'] = md['coord']
                if md.get('nradials'):
                    d['nradials'] = md['nradials']; d['radius'] = md['radius']
                media.append(M.Medium(md['perm'], md['cond'], md.get('height', 0), **d))
    m = M.Mininec(spec['f'], cont, media=media)
    for s in spec.get('sources', []):
        e = M.Excitation(complex(*s['v']), geo_tag=s.get('tag'), geo_idx=(s['pulse'] if s.get('tag') is not None else None))
        if s.get('tag') is not None:
            m.register_source(e, s['pulse'], s['tag'])
        else:
            m.register_source(e, s['pulse'])
    for l in spec.get('loads', []):
        k = l['kind']
        if k == 'imp':
            ld = M.Impedance_Load(complex(*l['z']))
        elif k == 'rlc':
            ld = M.Series_RLC_Load(*l['rlc'])
        elif k == 'trap':
            ld = M.Trap_Load(*l['rlc'])
        elif k == 'laplace':
            ld = M.Laplace_Load(a=l['a'], b=l['b'])
        elif k == 'skin':
            by = m.geo.by_tag
            if l.get('tag') is None:
                for g in m.geo:
                    ld = M.Skin_Effect_Load(g, conductivity=l.get('cond'), resistivity=l.get('res'), all_wires=True)
                    m.register_load(ld, None, g.tag)
            else:
                g = by[l['tag']]
                ld = M.Skin_Effect_Load(g, conductivity=l.get('cond'), resistivity=l.get('res'))
                m.register_load(ld, None, g.tag)
            continue
        elif k == 'ins':
            by = m.geo.by_tag
            if l.get('tag') is None:
                for g in m.geo:
                    ld = M.Insulation_Load(g, l['radius_factor'] * g.r_orig if 'radius_factor' in l else l['radius'], l['eps'], all_wires=True)
                    m.register_load(ld, None, g.tag)
            else:
                g = by[l['tag']]
                ld = M.Insulation_Load(g, l['radius_factor'] * g.r_orig if 'radius_factor' in l else l['radius'], l['eps'])
                m.register_load(ld, None, g.tag)
            continue
        for a in l['attach']:
            m.register_load(ld, *a)
    m.fix_distributed_loads()
    return m

def _cz(z):
    re, im = float(z[0]), float(z[1])
    return repr(re) + ('+' if im >= 0 or im != im else '-') + repr(abs(im)) + 'j'

def to_argv(spec, transforms=None, with_loads=True):
    """The command line that describes the same antenna as build(spec): objects, tapers, transformations (in the
    given order, keys as the text `keytext` when present), scales, media, sources, impedance loads."""
    a = ['-f', repr(float(spec['f']))]
    for w in spec['wires']:
        tg = [] if w.get('tag') is None else [str(int(w['tag']))]
        if w['type'] == 'wire':
            a.append('--wire=' + ','.join(tg + [str(w['nseg'])] + [repr(float(v)) for v in list(w['p1']) + list(w['p2'])] + [repr(float(w['r']))]))
        elif w['type'] == 'arc':
            a.append('--arc=' + ','.join(tg + [str(w['nseg'])] + [repr(float(w[k])) for k in ('radius', 'ang1', 'ang2', 'r')]))
        else:
            f = [repr(float(w[k])) for k in ('length', 'turnlen', 'r', 'rx1', 'ry1')]
            if w.get('rx2') is not None: f += [repr(float(w['rx2'])), repr(float(w['ry2']))]
            a.append('--helix=' + ','.join(tg + [str(w['nseg'])] + f))
    for w in spec['wires']:
        if w['type'] == 'wire' and w.get('taper'):
            if w.get('tag') is None: raise ValueError('to_argv: taper needs a tag')
            t = w['taper']; f = [str(int(w['tag'])), str(int(t[0]))]
            if t[1] is not None or t[2] is not None: f.append(repr(float(t[1] or 0)))
            if t[2] is not None: f.append(repr(float(t[2])))
            a.append('--taper-wire=' + ','.join(f))
    for t in (spec.get('transforms', []) if transforms is None else transforms):
        key = t['keytext'] if 'keytext' in t else repr(float(t['key']))
        a.append('--geo-%s=%s' % (t['op'], ','.join([key] + [repr(float(v)) for v in t['v']] + ([] if t.get('tag') is None else [str(int(t['tag']))]))))
    for t in spec.get('scales', []):
        a.append('--geo-scale=' + ','.join([repr(float(t['factor']))] + ([] if t.get('tag') is None else [str(int(t['tag']))])))
    if spec.get('media') is not None:
        if not spec['media']:
            a.append('--medium=0,0,0')
        else:
            for md in spec['media']:
                f = [repr(float(md['perm'])), repr(float(md['cond'])), repr(float(md.get('height', 0)))]
                if md.get('coord') is not None: f.append(repr(float(md['coord'])))
                a.append('--medium=' + ','.join(f))
            md = spec['media'][0]
            if md.get('boundary'): a.append('--boundary=' + md['boundary'])
            if md.get('nradials'): a += ['--radial-count=%d' % md['nradials'], '--radial-radius=' + repr(float(md['radius']))]
    for s in spec.get('sources', []):
        a.append('--excitation-pulse=' + (str(s['pulse'] + 1) if s.get('tag') is None else '%d,%d' % (s['pulse'] + 1, s['tag'])))
        a.append('--excitation-voltage=' + _cz(s['v']))
    if not spec.get('sources'):
        a.append('--excitation-pulse=1')
    if with_loads:
        n = 0
        for l in spec.get('loads', []):
            if l['kind'] != 'imp': raise ValueError('to_argv: only impedance loads')
            n += 1
            a.append('--load=' + _cz(l['z']))
            for at in l['attach']:
                first = 'all' if at[0] is None else str(at[0] + 1)
                a.append('--attach-load=%d,%s' % (n, first) + ('' if len(at) < 2 or at[1] is None else ',%d' % at[1]))
    return a

def add_sources(rng, spec, npulses, nsrc=None, grounded=()):
    """nsrc sources on distinct random pulses (absolute addressing)."""
    nsrc = nsrc or rng.choice([1, 1, 2, 3, 4])
    nsrc = min(nsrc, npulses)
    idx = rng.sample(range(npulses), nsrc)
    # prefer to include a grounded pulse when there is one
    if grounded and rng.random() < 0.6 and grounded[0] not in idx:
        idx[0] = grounded[0]
    spec['sources'] = []
    for i in idx:
        if rng.random() < 0.3:
            v = [1.0, 0.0]
        else:
            mag = 10 ** rng.uniform(-1, 2); ph = rng.uniform(-math.pi, math.pi)
            v = [mag * math.cos(ph), mag * math.sin(ph)]
        spec['sources'].append(dict(pulse=i, tag=None, v=v))
    return spec

def add_lumped_loads(rng, spec, npulses, nload=None, on=None):
    nload = rng.choice([0, 1, 1, 2, 3]) if nload is None else nload
    spec['loads'] = []
    for _ in range(nload):
        kind = rng.choice(['imp', 'imp', 'rlc', 'trap', 'laplace'])
        l = dict(kind=kind)
        if kind == 'imp':
            l['z'] = [rng.choice([0, 5, 50, 10 ** rng.uniform(-1, 3)]), rng.choice([0, 30, -30, rng.uniform(-500, 500)])]
        elif kind == 'rlc':
            l['rlc'] = [rng.choice([None, 10 ** rng.uniform(-1, 3)]), rng.choice([None, 10 ** rng.uniform(-8, -4)]),
                        rng.choice([None, 10 ** rng.uniform(-12, -8)])]
        elif kind == 'trap':
            l['rlc'] = [10 ** rng.uniform(-1, 2), 10 ** rng.uniform(-7, -5), 10 ** rng.uniform(-12, -10)]
        else:
            na = rng.randint(1, 3)
            l['a'] = [rng.choice([1.0, 0.0, 10 ** rng.uniform(-9, -6)]) for _ in range(na)]
            if not any(l['a']): l['a'][0] = 1.0
            l['b'] = [rng.choice([1.0, 50.0, 10 ** rng.uniform(-7, -4)]) for _ in range(rng.randint(1, 3))]
        k = rng.randint(1, 3)
        pulses = on if on is not None else rng.sample(range(npulses), min(k, npulses))
        l['attach'] = [[p] for p in pulses]
        spec['loads'].append(l)
    return spec

def n_pulses_estimate(spec):
    return sum(w['nseg'] for w in spec['wires'])

def gen_topology(rng, ground=None, perturb=True, curves=True):
    """Random wire graphs for the topology stage: nodes, wires between nodes in
    random orientation and order, 1..4 segments, junctions of up to 5 ends,
    closed loops, several components, ends perturbed by less / more than the
    matching tolerance, nodes on the ground plane."""
    f = rng.choice([7.0, 14.2, 28.5, 50.0])
    lam = C_MHZ / f
    nn = rng.randint(2, 6)
    nodes = []
    for k in range(nn):
        p = [rng.uniform(-1, 1) * lam * 0.2 for _ in range(3)]
        if ground:
            p[2] = abs(p[2]) + lam * 0.05
            if rng.random() < 0.35:
                p[2] = 0.0
        nodes.append(p)
    wires = []
    pairs = [(a, b) for a in range(nn) for b in range(a + 1, nn)]
    rng.shuffle(pairs)
    nw = rng.randint(1, min(len(pairs), 6))
    for (a, b) in pairs[:nw]:
        if ground and nodes[a][2] == 0 and nodes[b][2] == 0:
            continue
        if rng.random() < 0.5:
            a, b = b, a
        n = rng.randint(1, 4)
        L = math.dist(nodes[a], nodes[b])
        wires.append(wire(n, nodes[a], nodes[b], L / n / rng.uniform(20, 100)))
    if not wires:
        wires.append(wire(3, [0, 0, lam * 0.1], [lam * 0.1, 0, lam * 0.2], lam * 1e-4))
    if curves and rng.random() < 0.2:
        # a closed loop made of two objects: half-circle arc closed by a straight wire
        R = lam * rng.uniform(0.03, 0.08)
        za = 0.0 if ground else 0.0
        a = dict(type='arc', nseg=rng.randint(3, 6), radius=R, ang1=0.0, ang2=180.0, r=lam * 1e-4, tag=None)
        pa, pb = [R, 0.0, 0.0], [-R, 0.0, 0.0]
        if rng.random() < 0.5: pa, pb = pb, pa
        w2 = wire(rng.randint(1, 4), pa, pb, lam * 1e-4)
        if not ground:
            wires = [a, w2] if rng.random() < 0.5 else [w2, a]
    elif curves and rng.random() < 0.3:
        if rng.random() < 0.5:
            wires.append(dict(type='arc', nseg=rng.randint(3, 8), radius=lam * rng.uniform(0.02, 0.1),
                              ang1=rng.choice([0.0, 30.0]), ang2=rng.choice([180.0, 270.0, 360.0]),
                              r=lam * 1e-4, tag=None))
        else:
            wires.append(dict(type='helix', nseg=rng.randint(6, 12), length=lam * 0.1 * rng.choice([1, -1]),
                              turnlen=lam * 0.05 * rng.choice([1, -1]), r=lam * 1e-4,
                              rx1=lam * 0.02, ry1=lam * 0.02, rx2=None, ry2=None, tag=None))
    if rng.random() < 0.25:
        w = rng.choice([w for w in wires if w['type'] == 'wire'])
        if w['nseg'] >= 2:
            w['taper'] = [rng.choice([1, 2, 3]), None, None]
    rng.shuffle(wires)
    # tolerance as the code will see it (equal segmentation only; good enough to aim)
    # a lower bound of the shortest segment (a tapered wire halves its segments towards the tapered end), so that
    # "less than the tolerance" stays less for every pair of ends of a junction and the closeness of ends stays
    # an equivalence relation (otherwise "joined exactly when closer" is not well defined)
    seglens = [math.dist(w['p1'], w['p2']) / (w['nseg'] if not w.get('taper') else 2 ** w['nseg']) for w in wires if w['type'] == 'wire']
    tol = 1e-3 * min(seglens) * (0.25 if any(w['type'] != 'wire' for w in wires) else 1.0)
    if perturb:
        for w in wires:
            if w['type'] != 'wire':
                continue
            for key in ('p1', 'p2'):
                if rng.random() < 0.3 and not (ground and w[key][2] == 0):
                    d = _unit(rng)
                    # "less": below a lower bound of the tolerance; "more": above an upper bound of it (the untapered estimate)
                    tol_up = 1e-3 * min(math.dist(x['p1'], x['p2']) / x['nseg'] for x in wires if x['type'] == 'wire')
                    mag = rng.choice([0.3 * tol, 0.3 * tol, 0.45 * tol, rng.choice([1.5, 3.0, 8.0, 30.0]) * tol_up])
                    w[key] = [w[key][i] + d[i] * mag for i in range(3)]
    mode = rng.choice(['none', 'explicit', 'gaps', 'perm', 'mixed'])
    k = len(wires)
    if mode == 'explicit':
        for i, w in enumerate(wires): w['tag'] = i + 1
    elif mode == 'gaps':
        t = 0
        for w in wires:
            t += rng.randint(1, 4); w['tag'] = t
    elif mode == 'perm':
        for w, t in zip(wires, rng.sample(range(1, 3 * k + 1), k)): w['tag'] = t
    elif mode == 'mixed':
        for w, t in zip(wires, rng.sample(range(1, 2 * k + 2), k)):
            w['tag'] = t if rng.random() < 0.5 else None
    media = None if not ground else []
    return dict(f=f, wires=wires, media=media, family='graph', tagmode=mode, sources=[], loads=[])

def gen_geometry(rng):
    """Objects of every kind with tapers (all types, with/without limits),
    and random sequences of keyed rotations/translations (tagged/untagged)
    and scalings, for the segmentation stage. All objects get explicit tags."""
    k = rng.randint(1, 4)
    objs = []
    for i in range(k):
        kind = rng.choice(['wire', 'wire', 'taper', 'taper', 'arc', 'helix'])
        tag = i + 1
        if kind in ('wire', 'taper'):
            n = rng.randint(1, 12) if kind == 'wire' else rng.randint(2, 12)
            p1 = [rng.uniform(-5, 5) for _ in range(3)]
            d = _unit(rng); L = 10 ** rng.uniform(-1, 1.5)
            p2 = _add(p1, d, L)
            r = L / n / rng.choice([10, 30, 100, 1000])
            w = wire(n, p1, p2, r, tag=tag)
            if kind == 'taper':
                tp = rng.choice([1, 2, 3])
                tmin = tmax = None
                u = rng.random()
                if u < 0.3:
                    tmax = L / n * rng.uniform(1.05, 3)
                elif u < 0.5:
                    tmin = L / n * rng.uniform(0.05, 0.6)
                elif u < 0.65:
                    tmin = L / n * rng.uniform(0.05, 0.6); tmax = L / n * rng.uniform(1.05, 3)
                w['taper'] = [tp, tmin, tmax]
            objs.append(w)
        elif kind == 'arc':
            a1 = rng.choice([0.0, 30.0, -45.0, rng.uniform(-180, 180)])
            objs.append(dict(type='arc', nseg=rng.randint(3, 12), radius=10 ** rng.uniform(-1, 1), ang1=a1,
                             ang2=a1 + rng.choice([90.0, 180.0, 360.0, rng.uniform(10, 360)]), r=0.001, tag=tag))
        else:
            tl = 10 ** rng.uniform(-1, 0) * rng.choice([1, -1])
            turns = rng.choice([1.0, 2.0, 0.5, rng.uniform(0.5, 3)])
            ln = abs(tl) * turns * rng.choice([1, -1])
            n = max(3, int(math.ceil(turns * 3)) + rng.randint(0, 8))
            rx1 = 10 ** rng.uniform(-1.5, 0); ry1 = rx1 * rng.choice([1.0, 1.0, 1.5])
            rx2 = rng.choice([None, rx1 * 1.7]); ry2 = None if rx2 is None else ry1 * 1.3
            objs.append(dict(type='helix', nseg=n, length=ln, turnlen=tl, r=0.001, rx1=rx1, ry1=ry1, rx2=rx2, ry2=ry2, tag=tag))
    transforms = []
    for _ in range(rng.choice([0, 1, 2, 3, 4])):
        key = float(rng.choice([0, 1, 1, 2, 3, 5]))
        tg = rng.choice([None, None, rng.randint(1, k)])
        if rng.random() < 0.5:
            v = [rng.choice([0.0, 90.0, rng.uniform(-180, 180)]) for _ in range(3)]
            if rng.random() < 0.5:
                j = rng.randrange(3); v = [v[i] if i == j else 0.0 for i in range(3)]
            transforms.append(dict(op='rotate', key=key, v=v, tag=tg))
        else:
            transforms.append(dict(op='translate', key=key, v=[rng.uniform(-3, 3) for _ in range(3)], tag=tg))
    # main() applies transformations sorted by key (stable); gen.build applies them in list order
    order = sorted(range(len(transforms)), key=lambda i: transforms[i]['key'])
    scales = []
    for _ in range(rng.choice([0, 0, 1, 2])):
        scales.append(dict(factor=10 ** rng.uniform(-1, 1), tag=rng.choice([None, None, rng.randint(1, k)])))
    return dict(f=10.0, wires=objs, media=None, family='geometry', tagmode='explicit', sources=[], loads=[],
                transforms_unsorted=transforms, transforms=[transforms[i] for i in order], scales=scales)
