#!/usr/bin/env python3
"""Fail-closed translator: leaf formulas and constants of /repo/mininec/*.py
-> Gallina definitions over the Num class (coq/Gen/Extracted.v).

Every item of CONTRACT names a function of the source, the source text of the
sub-expressions that are bound to Gallina parameters (with their kinds), and
what is returned.  Anything outside the supported subset raises Fail; the item
is then *not* emitted (so every proof that depends on it stops compiling) and
the failure is recorded in Gen/extracted_status.json.
"""
import ast, json, os, sys, decimal, hashlib

REPO = os.environ.get('PM_REPO', '/repo')
OUT  = os.path.join(os.path.dirname(os.path.abspath(__file__)), '..', 'coq', 'Gen')

class Fail(Exception):
    pass

# kinds: 'R' real, 'C' complex, 'I' python int (literal or variable, coerced
# to R on demand), 'B' bool, ('L', k) list of kind k, ('RNG', coq_len) the
# array np.array(range(n)) still symbolic in its index variable.

def dec_of_float(v):
    if v != v or v in (float('inf'), float('-inf')):
        raise Fail('non-finite literal')
    d = decimal.Decimal(repr(v))
    sign, digits, exp = d.as_tuple()
    m = int(''.join(map(str, digits)))
    while m and m % 10 == 0:
        m //= 10
        exp += 1
    if m == 0:
        exp = 0
    if sign:
        m = -m
    # check that the exact decimal rounds to this double (Python's own parser)
    if float('%de%d' % (m, exp)) != v:
        raise Fail('literal %r is not the nearest double of %de%d' % (v, m, exp))
    return '(of_dec (%d) (%d))' % (m, exp)

class Tr:
    def __init__(self, env, srcname):
        self.env = dict(env)      # source text -> (coq term, kind)
        self.src = srcname
        self.fresh = 0

    # ----- helpers -----
    def toR(self, t, k):
        if k == 'R':
            return t
        if k == 'I':
            return '(of_Z %s)' % t
        raise Fail('cannot use kind %s as real: %s' % (k, t))

    def toC(self, t, k):
        if k == 'C':
            return t
        return '(cofR %s)' % self.toR(t, k)

    def join(self, k1, k2):
        if 'C' in (k1, k2):
            return 'C'
        if k1 == 'I' and k2 == 'I':
            return 'I'
        return 'R'

    def lookup(self, node):
        txt = ast.unparse(node)
        if txt in self.env:
            return self.env[txt]
        return None

    # ----- expressions -----
    def expr(self, n):
        hit = self.lookup(n)
        if hit is not None:
            return hit
        m = getattr(self, 'e_' + type(n).__name__, None)
        if m is None:
            raise Fail('unsupported expression %s: %s' % (type(n).__name__, ast.unparse(n)))
        return m(n)

    def e_Constant(self, n):
        v = n.value
        if isinstance(v, bool):
            return ('true' if v else 'false', 'B')
        if isinstance(v, int):
            return ('(%d)%%Z' % v, 'I')
        if isinstance(v, float):
            return (dec_of_float(v), 'R')
        if isinstance(v, complex):
            if v.real != 0:
                raise Fail('complex literal with real part')
            im = v.imag
            if im == int(im):
                t = '(of_Z (%d)%%Z)' % int(im)
            else:
                t = dec_of_float(im)
            return ('(zero, %s)' % t, 'C')
        raise Fail('constant %r' % (v,))

    def e_Name(self, n):
        mod = getattr(self, 'module', None)
        if mod is not None:
            for st in mod.body:
                if isinstance(st, ast.Assign) and len(st.targets) == 1 \
                   and isinstance(st.targets[0], ast.Name) and st.targets[0].id == n.id:
                    sub = Tr({}, self.src)
                    sub.module = mod
                    return sub.expr(st.value)
        raise Fail('unbound name %s' % n.id)

    def e_Attribute(self, n):
        if isinstance(n.value, ast.Name) and n.value.id == 'np':
            if n.attr == 'pi':
                return ('npi', 'R')
            if n.attr == 'e':
                return ('(nexp one)', 'R')
        if isinstance(n.value, ast.Name) and n.value.id == 'self' and getattr(self, 'klass', None) is not None:
            for st in self.klass.body:
                if isinstance(st, ast.Assign) and len(st.targets) == 1 \
                   and isinstance(st.targets[0], ast.Name) and st.targets[0].id == n.attr:
                    sub = Tr({}, self.src); sub.module = getattr(self, 'module', None)
                    return sub.expr(st.value)
        if n.attr in ('real', 'imag'):
            t, k = self.expr(n.value)
            if k != 'C':
                raise Fail('.%s of non-complex' % n.attr)
            return ('(%s %s)' % ('cre' if n.attr == 'real' else 'cim', t), 'R')
        raise Fail('unbound attribute %s' % ast.unparse(n))

    def e_UnaryOp(self, n):
        t, k = self.expr(n.operand)
        if isinstance(n.op, ast.USub):
            if k == 'C':
                return ('(copp %s)' % t, 'C')
            if k == 'I':
                return ('(- %s)%%Z' % t, 'I')
            return ('(opp %s)' % t, 'R')
        if isinstance(n.op, ast.UAdd):
            return (t, k)
        if isinstance(n.op, ast.Not):
            if k != 'B':
                raise Fail('not of non-bool')
            return ('(negb %s)' % t, 'B')
        raise Fail('unary op')

    def e_BinOp(self, n):
        op = type(n.op).__name__
        if op == 'Pow':
            return self.power(n)
        a, ka = self.expr(n.left)
        b, kb = self.expr(n.right)
        if isinstance(ka, tuple) or isinstance(kb, tuple):
            return self.arr_binop(op, a, ka, b, kb)
        k = self.join(ka, kb)
        if k == 'I' and op in ('Add', 'Sub', 'Mult'):
            o = {'Add': '+', 'Sub': '-', 'Mult': '*'}[op]
            return ('(%s %s %s)%%Z' % (a, o, b), 'I')
        if k == 'I':
            k = 'R'
        if k == 'C':
            # real * complex keeps cscale so that proofs see the structure
            if op == 'Mult' and ka != 'C':
                return ('(cscale %s %s)' % (self.toR(a, ka), b), 'C')
            if op == 'Mult' and kb != 'C':
                return ('(cscale %s %s)' % (self.toR(b, kb), a), 'C')
            if op == 'Div' and kb != 'C':
                return ('(cdivr %s %s)' % (a, self.toR(b, kb)), 'C')
            f = {'Add': 'cadd', 'Sub': 'csub', 'Mult': 'cmul', 'Div': 'cdiv'}.get(op)
            if f is None:
                raise Fail('complex op %s' % op)
            return ('(%s %s %s)' % (f, self.toC(a, ka), self.toC(b, kb)), 'C')
        f = {'Add': 'add', 'Sub': 'sub', 'Mult': 'mul', 'Div': 'div'}.get(op)
        if f is None:
            raise Fail('real op %s' % op)
        return ('(%s %s %s)' % (f, self.toR(a, ka), self.toR(b, kb)), 'R')

    def arr_binop(self, op, a, ka, b, kb):
        # broadcasting of a symbolic range array with real scalars;
        # the array is represented by its element expression in variable k_
        f = {'Add': 'add', 'Sub': 'sub', 'Mult': 'mul', 'Div': 'div'}.get(op)
        if f is None:
            raise Fail('array op %s' % op)
        ln = None
        def elem(t, k):
            nonlocal ln
            if isinstance(k, tuple) and k[0] == 'RNG':
                if ln is not None and ln != k[1]:
                    raise Fail('array length mismatch')
                ln = k[1]
                return t
            return self.toR(t, k)
        ea, eb = elem(a, ka), elem(b, kb)
        return ('(%s %s %s)' % (f, ea, eb), ('RNG', ln))

    def power(self, n):
        # x ** 2, np.e ** z, x ** y (positive real base)
        if ast.unparse(n.left) == 'np.e':
            t, k = self.expr(n.right)
            if k == 'C':
                return ('(cexp %s)' % t, 'C')
            return ('(nexp %s)' % self.toR(t, k), 'R')
        a, ka = self.expr(n.left)
        if isinstance(n.right, ast.Constant) and isinstance(n.right.value, int) \
           and 0 <= n.right.value <= 8:
            e = n.right.value
            if ka == 'C':
                r = 'c1'
                for _ in range(e):
                    r = '(cmul %s %s)' % (a, r) if r != 'c1' else a
                return (r, 'C')
            return ('(npow %s %d)' % (self.toR(a, ka), e), 'R')
        b, kb = self.expr(n.right)
        if ka == 'C' or kb == 'C':
            raise Fail('general complex power')
        return ('(nexp (mul %s (nln %s)))' % (self.toR(b, kb), self.toR(a, ka)), 'R')

    def e_Compare(self, n):
        if len(n.ops) != 1:
            raise Fail('chained comparison')
        a, ka = self.expr(n.left)
        b, kb = self.expr(n.comparators[0])
        op = type(n.ops[0]).__name__
        if ka == 'I' and kb == 'I':
            f = {'Lt': 'Z.ltb %s %s', 'LtE': 'Z.leb %s %s', 'Gt': 'Z.ltb %s %s',
                 'GtE': 'Z.leb %s %s', 'Eq': 'Z.eqb %s %s', 'NotEq': 'negb (Z.eqb %s %s)'}[op]
            x, y = (b, a) if op in ('Gt', 'GtE') else (a, b)
            return ('(%s)' % (f % (x, y)), 'B')
        a, b = self.toR(a, ka), self.toR(b, kb)
        if op == 'Lt':   return ('(ltb %s %s)' % (a, b), 'B')
        if op == 'LtE':  return ('(leb %s %s)' % (a, b), 'B')
        if op == 'Gt':   return ('(ltb %s %s)' % (b, a), 'B')
        if op == 'GtE':  return ('(leb %s %s)' % (b, a), 'B')
        if op == 'Eq':   return ('(eqb %s %s)' % (a, b), 'B')
        if op == 'NotEq': return ('(negb (eqb %s %s))' % (a, b), 'B')
        raise Fail('comparison %s' % op)

    def e_BoolOp(self, n):
        f = 'andb' if isinstance(n.op, ast.And) else 'orb'
        ts = []
        for v in n.values:
            t, k = self.expr(v)
            if k != 'B':
                raise Fail('bool op on non-bool %s' % ast.unparse(v))
            ts.append(t)
        r = ts[-1]
        for t in reversed(ts[:-1]):
            r = '(%s %s %s)' % (f, t, r)
        return (r, 'B')

    def truthy(self, n):
        """Python truthiness of an expression used as a condition."""
        t, k = self.expr(n)
        if k == 'B':
            return t
        if k == 'R':
            return '(negb (eqb %s zero))' % t
        if k == 'I':
            return '(negb (Z.eqb %s 0))' % t
        raise Fail('truthiness of kind %s' % (k,))

    def e_IfExp(self, n):
        c = self.truthy(n.test)
        a, ka = self.expr(n.body)
        b, kb = self.expr(n.orelse)
        if ka == kb and isinstance(ka, tuple) and ka[0] == 'L':
            return ('(if %s then %s else %s)' % (c, a, b), ka)
        k = self.join(ka, kb) if (ka, kb) != ('B', 'B') else 'B'
        if k == 'B':
            return ('(if %s then %s else %s)' % (c, a, b), 'B')
        if k == 'C':
            return ('(if %s then %s else %s)' % (c, self.toC(a, ka), self.toC(b, kb)), 'C')
        if k == 'I':
            return ('(if %s then %s else %s)' % (c, a, b), 'I')
        return ('(if %s then %s else %s)' % (c, self.toR(a, ka), self.toR(b, kb)), 'R')

    def e_List(self, n):
        parts = [self.expr(e) for e in n.elts]
        return ('[' + '; '.join(self.toR(t, k) for t, k in parts) + ']', ('L', 'R'))

    def e_Tuple(self, n):
        parts = [self.expr(e) for e in n.elts]
        return ('(' + ', '.join(p[0] for p in parts) + ')', ('TUP', tuple(p[1] for p in parts)))

    def e_Subscript(self, n):
        t, k = self.expr(n.value)
        if isinstance(k, tuple) and k[0] == 'L' and isinstance(n.slice, ast.Slice) \
           and n.slice.lower is None and n.slice.step is None and n.slice.upper is not None:
            u, ku = self.expr(n.slice.upper)
            if ku != 'I':
                raise Fail('slice bound is not an int')
            return ('(firstn (Z.to_nat %s) %s)' % (u, t), k)
        if isinstance(k, tuple) and k[0] == 'TUP' and isinstance(n.slice, ast.Constant):
            raise Fail('tuple index (bind the element in the contract)')
        raise Fail('subscript %s' % ast.unparse(n))

    def e_Call(self, n):
        fn = ast.unparse(n.func)
        if n.keywords:
            raise Fail('keyword arguments in call %s' % fn)
        if fn == 'np.array' and len(n.args) == 1 and isinstance(n.args[0], ast.Call) \
           and ast.unparse(n.args[0].func) == 'range' and len(n.args[0].args) == 1:
            t, k = self.expr(n.args[0].args[0])
            if k != 'I':
                raise Fail('range of non-int')
            return ('(of_nat k_)', ('RNG', t))
        if fn == 'int' and len(n.args) == 1:
            t, k = self.expr(n.args[0])
            if k == 'I':
                return (t, 'I')
            return ('(ntrunc %s)' % self.toR(t, k), 'I')
        if fn == 'float' and len(n.args) == 1:
            t, k = self.expr(n.args[0])
            return (self.toR(t, k), 'R')
        args = [self.expr(a) for a in n.args]
        if fn == 'np.full' and len(args) == 2 and args[0][1] == 'I':
            return ('(repeat %s (Z.to_nat %s))' % (self.toR(*args[1]), args[0][0]), ('L', 'R'))
        if fn == 'np.array' and len(args) == 1 and args[0][1] == ('L', 'R'):
            return args[0]
        if fn == 'np.arange' and len(args) == 3:
            a, b, c = [self.toR(t, k) for t, k in args]
            return ('(np_arange %s %s %s)' % (a, b, c), ('L', 'R'))
        def one():
            if len(args) != 1:
                raise Fail('arity of %s' % fn)
            return args[0]
        if fn in ('np.sqrt',):
            t, k = one()
            return ('(csqrt %s)' % t, 'C') if k == 'C' else ('(nsqrt %s)' % self.toR(t, k), 'R')
        if fn in ('np.log',):
            t, k = one()
            return ('(cln %s)' % t, 'C') if k == 'C' else ('(nln %s)' % self.toR(t, k), 'R')
        if fn in ('np.exp',):
            t, k = one()
            return ('(cexp %s)' % t, 'C') if k == 'C' else ('(nexp %s)' % self.toR(t, k), 'R')
        if fn in ('np.sin', 'np.cos'):
            t, k = one()
            return ('(%s %s)' % ('nsin' if fn == 'np.sin' else 'ncos', self.toR(t, k)), 'R')
        if fn in ('np.conj',):
            t, k = one()
            return ('(cconj %s)' % self.toC(t, k), 'C')
        if fn in ('np.abs', 'abs'):
            t, k = one()
            return ('(cabs %s)' % t, 'R') if k == 'C' else ('(nabs %s)' % self.toR(t, k), 'R')
        if fn in ('np.angle',):
            t, k = one()
            return ('(carg %s)' % self.toC(t, k), 'R')
        if fn in ('max', 'min') and len(args) == 2:
            (a, ka), (b, kb) = args
            return ('(%s %s %s)' % ('nmax' if fn == 'max' else 'nmin',
                                    self.toR(a, ka), self.toR(b, kb)), 'R')
        if fn == 'np.array' and len(n.args) == 1 and isinstance(n.args[0], ast.Call) \
           and ast.unparse(n.args[0].func) == 'range' and len(n.args[0].args) == 1:
            t, k = self.expr(n.args[0].args[0])
            if k != 'I':
                raise Fail('range of non-int')
            return ('(of_nat k_)', ('RNG', t))
        raise Fail('call to %s' % fn)

    # ----- statements -----
    def body(self, stmts, result):
        """Translate a statement list into a Gallina expression.
        `result` says what the value is: ('return',) the returned expression;
        ('target', text) the value assigned (or added) to that target;
        ('attrs', [names]) a tuple of the final values of self.<name>."""
        lets = []
        val = self.block(stmts, lets, result)
        if val is None:
            if result[0] == 'attrs':
                parts = []
                for a in result[1]:
                    key = 'self.' + a
                    if key not in self.env:
                        raise Fail('attribute %s never assigned' % key)
                    parts.append(self.env[key])
                val = ('(' + ', '.join(p[0] for p in parts) + ')',
                       ('TUP', tuple(p[1] for p in parts)))
            elif result[0] == 'final':
                # the value the name holds after the whole block
                if result[1] not in self.env:
                    raise Fail('name %s never assigned' % result[1])
                val = self.env[result[1]]
            else:
                raise Fail('no result statement found (%s)' % (result,))
        t = val[0]
        for name, rhs in reversed(lets):
            t = 'let %s := %s in\n    %s' % (name, rhs, t)
        return t, val[1]

    def bind(self, key, t, k, lets):
        self.fresh += 1
        base = ''.join(c if c.isalnum() else '_' for c in key)
        nm = 'v%d_%s' % (self.fresh, base)
        lets.append((nm, t))
        self.env[key] = (nm, k)

    def block(self, stmts, lets, result):
        for s in stmts:
            if isinstance(s, ast.Expr) and isinstance(s.value, ast.Constant) \
               and isinstance(s.value.value, str):
                continue  # docstring
            if isinstance(s, ast.Pass):
                continue
            if isinstance(s, ast.Return):
                if result[0] != 'return':
                    raise Fail('unexpected return')
                return self.expr(s.value)
            if isinstance(s, ast.Expr) and isinstance(s.value, ast.Call) \
               and ast.unparse(s.value.func) == 'super().__init__' and result[0] == 'superinit':
                vals = {}
                for nm, a in zip(result[1], s.value.args):
                    vals[nm] = a
                for kw in s.value.keywords:
                    vals[kw.arg] = kw.value
                parts = []
                for nm in result[1]:
                    if nm not in vals:
                        raise Fail('super().__init__ lacks argument %s' % nm)
                    a = vals[nm]
                    if isinstance(a, ast.Tuple):
                        a = ast.List(elts=a.elts, ctx=ast.Load())
                    parts.append(self.expr(a))
                return ('(' + ', '.join(p[0] for p in parts) + ')', ('TUP', tuple(p[1] for p in parts)))
            if isinstance(s, ast.Assign):
                t, k = self.expr(s.value)
                for tg in s.targets:
                    key = ast.unparse(tg)
                    if result[0] == 'target' and key == result[1]:
                        return (t, k)
                    if not isinstance(tg, (ast.Name, ast.Attribute)):
                        raise Fail('assignment target %s' % key)
                    self.bind(key, t, k, lets)
                continue
            if isinstance(s, ast.AugAssign):
                key = ast.unparse(s.target)
                fake = ast.BinOp(left=s.target, op=s.op, right=s.value)
                if result[0] == 'target' and key == result[1]:
                    if not isinstance(s.op, ast.Add):
                        raise Fail('result target updated with non-add')
                    return self.expr(s.value)
                t, k = self.expr(ast.fix_missing_locations(fake))
                self.bind(key, t, k, lets)
                continue
            if isinstance(s, ast.If) and result[0] == 'return' and s.body \
               and isinstance(s.body[-1], ast.Return) and not s.orelse:
                c = self.truthy(s.test)
                sub = Tr(self.env, self.src); sub.module = getattr(self, 'module', None); sub.klass = getattr(self, 'klass', None); sub.fresh = self.fresh + 100
                a, ka = sub.body(s.body, result)
                rest = Tr(self.env, self.src); rest.module = getattr(self, 'module', None); rest.klass = getattr(self, 'klass', None); rest.fresh = self.fresh + 200
                idx = stmts.index(s)
                b, kb = rest.body(stmts[idx + 1:], result)
                k = 'B' if (ka, kb) == ('B', 'B') else self.join(ka, kb)
                if k == 'C':
                    a, b = self.toC(a, ka), self.toC(b, kb)
                elif k == 'R':
                    a, b = self.toR(a, ka), self.toR(b, kb)
                return ('(if %s then %s else %s)' % (c, a, b), k)
            if isinstance(s, ast.If):
                c = self.truthy(s.test)
                # both branches may only (re)assign names; merge by phi
                envs = []
                for br in (s.body, s.orelse):
                    sub = Tr(self.env, self.src); sub.module = getattr(self, 'module', None); sub.klass = getattr(self, 'klass', None)
                    sub.fresh = self.fresh + 100 * (1 + len(envs))
                    sl = []
                    r = sub.block(br, sl, ('none',))
                    if r is not None:
                        raise Fail('result inside if')
                    envs.append((sub.env, sl))
                changed = set()
                for e, _ in envs:
                    for key in e:
                        if e[key] != self.env.get(key):
                            changed.add(key)
                for key in sorted(changed):
                    vals = []
                    for e, sl in envs:
                        if key not in e:
                            raise Fail('name %s bound in one branch only' % key)
                        t = e[key][0]
                        for nm, rhs in reversed(sl):
                            t = '(let %s := %s in %s)' % (nm, rhs, t)
                        vals.append((t, e[key][1]))
                    (a, ka), (b, kb) = vals
                    if isinstance(ka, tuple) or isinstance(kb, tuple):
                        if ka != kb:
                            raise Fail('branches bind %s to different kinds' % key)
                        self.bind(key, '(if %s then %s else %s)' % (c, a, b), ka, lets)
                        continue
                    k = 'B' if (ka, kb) == ('B', 'B') else self.join(ka, kb)
                    if k == 'C':
                        a, b = self.toC(a, ka), self.toC(b, kb)
                    elif k == 'R':
                        a, b = self.toR(a, ka), self.toR(b, kb)
                    self.bind(key, '(if %s then %s else %s)' % (c, a, b), k, lets)
                continue
            if isinstance(s, ast.For):
                self.for_fold(s, lets)
                continue
            raise Fail('unsupported statement %s' % type(s).__name__)
        return None

    def for_fold(self, s, lets):
        """for j in range(len(self.a)): acc op= f(self.a[j], self.b[j], acc...)"""
        if not (isinstance(s.target, ast.Name) and isinstance(s.iter, ast.Call)
                and ast.unparse(s.iter.func) == 'range' and len(s.iter.args) == 1
                and isinstance(s.iter.args[0], ast.Call)
                and ast.unparse(s.iter.args[0].func) == 'len' and not s.orelse):
            raise Fail('unsupported for loop: %s' % ast.unparse(s.iter))
        j = s.target.id
        # which lists are indexed by j
        lists = []
        for node in ast.walk(s):
            if isinstance(node, ast.Subscript) and isinstance(node.slice, ast.Name) \
               and node.slice.id == j:
                nm = ast.unparse(node.value)
                if nm not in lists:
                    lists.append(nm)
        for nm in lists:
            if nm not in self.env or not (isinstance(self.env[nm][1], tuple)
                                           and self.env[nm][1][0] == 'L'):
                raise Fail('loop indexes unknown list %s' % nm)
        if len(lists) not in (1, 2):
            raise Fail('loop over %d lists' % len(lists))
        accs = []
        for st in s.body:
            if not isinstance(st, ast.AugAssign) or not isinstance(st.target, ast.Name):
                raise Fail('loop body statement %s' % type(st).__name__)
            if st.target.id not in accs:
                accs.append(st.target.id)
        sub = Tr(self.env, self.src); sub.module = getattr(self, 'module', None); sub.klass = getattr(self, 'klass', None)
        sub.fresh = self.fresh + 1000
        for i, nm in enumerate(lists):
            sub.env['%s[%s]' % (nm, j)] = ('e%d_' % i, self.env[nm][1][1])
        akinds = []
        for a in accs:
            if a not in self.env:
                raise Fail('accumulator %s not initialised' % a)
            akinds.append(self.env[a][1])
            sub.env[a] = ('a_%s' % a, self.env[a][1])
        # accumulators that become complex stay complex: iterate kinds to fixpoint
        for _ in range(3):
            trial = Tr(sub.env, self.src); trial.module = getattr(self, 'module', None); trial.klass = getattr(self, 'klass', None)
            trial.fresh = sub.fresh
            sl = []
            trial.block(s.body, sl, ('none',))
            newk = [trial.env[a][1] for a in accs]
            if newk == [sub.env[a][1] for a in accs]:
                break
            for a, k in zip(accs, newk):
                sub.env[a] = ('a_%s' % a, k)
        else:
            raise Fail('loop kinds do not stabilise')
        t = '(' + ', '.join(trial.env[a][0] for a in accs) + ')'
        for nm, rhs in reversed(sl):
            t = 'let %s := %s in %s' % (nm, rhs, t)
        pat_acc = "'(" + ', '.join('a_%s' % a for a in accs) + ')' if len(accs) > 1 else 'a_%s' % accs[0]
        if len(lists) == 2:
            seq = '(combine %s %s)' % (self.env[lists[0]][0], self.env[lists[1]][0])
            pat_el = "'(e0_, e1_)"
        else:
            seq = self.env[lists[0]][0]
            pat_el = 'e0_'
        init = []
        for a in accs:
            t0, k0 = self.env[a]
            k1 = sub.env[a][1]
            init.append(self.toC(t0, k0) if k1 == 'C' else (self.toR(t0, k0) if k1 == 'R' else t0))
        fold = '(fold_left (fun %s %s => %s) %s (%s))' % (pat_acc, pat_el, t, seq, ', '.join(init))
        self.fresh += 1
        nm = 'v%d_loop' % self.fresh
        lets.append(("'(" + ', '.join('%s_%s' % (nm, a) for a in accs) + ')' if len(accs) > 1
                     else '%s_%s' % (nm, accs[0]), fold))
        for a in accs:
            self.env[a] = ('%s_%s' % (nm, a), sub.env[a][1])


def find_func(tree, qual):
    """qual: 'Class.method', 'Class.prop@setter', 'func'"""
    want_setter = qual.endswith('@setter')
    qual = qual.replace('@setter', '')
    parts = qual.split('.')
    nodes = tree.body
    for i, p in enumerate(parts):
        found = None
        for n in nodes:
            if isinstance(n, (ast.ClassDef, ast.FunctionDef)) and n.name == p:
                if isinstance(n, ast.FunctionDef) and i == len(parts) - 1:
                    is_setter = any(isinstance(d, ast.Attribute) and d.attr == 'setter'
                                    for d in n.decorator_list)
                    if is_setter != want_setter:
                        continue
                found = n
                break
        if found is None:
            raise Fail('function %s not found' % qual)
        nodes = found.body
    return found

def find_stmts(func, path):
    """path: list of selectors descending into the body:
       ('for', i) i-th for statement's body; ('if', i) i-th if body;
       ('slice', a, b) statements a..b of the current list."""
    stmts = func.body
    for sel in path:
        if sel[0] in ('for', 'if'):
            typ = ast.For if sel[0] == 'for' else ast.If
            cands = [s for s in stmts if isinstance(s, typ)]
            if sel[1] >= len(cands):
                raise Fail('path %s not found' % (sel,))
            stmts = cands[sel[1]].body
        elif sel[0] == 'slice':
            stmts = stmts[sel[1]:sel[2]]
        elif sel[0] == 'else':
            cands = [s for s in stmts if isinstance(s, ast.If)]
            if sel[1] >= len(cands) or not cands[sel[1]].orelse:
                raise Fail('path %s not found' % (sel,))
            stmts = cands[sel[1]].orelse
        elif sel[0] == 'from_target':
            # statements starting at the first assignment to the given target
            for i, s in enumerate(stmts):
                if isinstance(s, ast.Assign) and any(ast.unparse(t) == sel[1] for t in s.targets):
                    stmts = stmts[i:]
                    break
            else:
                raise Fail('target %s not found' % sel[1])
        elif sel[0] == 'until_target':
            for i, s in enumerate(stmts):
                if isinstance(s, (ast.Assign, ast.AugAssign)):
                    tg = s.targets if isinstance(s, ast.Assign) else [s.target]
                    if any(ast.unparse(t) == sel[1] for t in tg):
                        stmts = stmts[:i + 1]
                        break
            else:
                raise Fail('target %s not found' % sel[1])
        elif sel[0] in ('assign_value', 'augassign_value'):
            typ = ast.Assign if sel[0] == 'assign_value' else ast.AugAssign
            hits = []
            for st in stmts:
                for node in ast.walk(st):
                    if isinstance(node, typ):
                        tg = node.targets if typ is ast.Assign else [node.target]
                        if any(ast.unparse(t) == sel[1] for t in tg):
                            hits.append(node)
            if len(sel) > 2:
                if sel[2] >= len(hits) or len(hits) != sel[3]:
                    raise Fail('%d assignments to %s, contract expects %d' % (len(hits), sel[1], sel[3]))
                return [ast.Return(value=hits[sel[2]].value)]
            if len(hits) != 1:
                raise Fail('%d assignments to %s' % (len(hits), sel[1]))
            return [ast.Return(value=hits[0].value)]
        elif sel[0] == 'listcomp_elt':
            # element expression of the list comprehension assigned to sel[1]
            for st in stmts:
                if isinstance(st, ast.Assign) and any(ast.unparse(t) == sel[1] for t in st.targets) \
                   and isinstance(st.value, ast.ListComp) and len(st.value.generators) == 1:
                    g = st.value.generators[0]
                    if ast.unparse(g.target) != sel[2] or g.ifs:
                        raise Fail('list comprehension target is %s' % ast.unparse(g.target))
                    return [ast.Return(value=st.value.elt)]
            raise Fail('list comprehension for %s not found' % sel[1])
        else:
            raise Fail('bad path selector')
    return stmts

COQ_KIND = {'R': 'T', 'C': 'Cx', 'I': 'Z', 'B': 'bool'}
def coq_type(k):
    if isinstance(k, tuple) and k[0] == 'L':
        return 'list %s' % coq_type(k[1])
    if isinstance(k, tuple) and k[0] == 'TUP':
        return '(' + ' * '.join(coq_type(x) for x in k[1]) + ')%type'
    return COQ_KIND[k]

def translate_item(trees, item):
    fn = find_func(trees[item['file']], item['func'])
    stmts = find_stmts(fn, item.get('path', []))
    env = {}
    params = []
    for text, kind, cname in item['bind']:
        kind = tuple(kind) if isinstance(kind, list) else kind
        env[text] = (cname, kind)
        if (cname, kind) not in params:
            params.append((cname, kind))
    for text, coq, kind in item.get('const', []):
        env[text] = (coq, kind)
    tr = Tr(env, item['file'])
    tr.module = trees[item['file']]
    if '.' in item['func']:
        cname = item['func'].split('.')[0]
        for nd in trees[item['file']].body:
            if isinstance(nd, ast.ClassDef) and nd.name == cname:
                tr.klass = nd
    res = item['result']
    res = (res[0], tuple(res[1])) if res[0] == 'superinit' else tuple(res)
    t, k = tr.body(stmts, res)
    if isinstance(k, tuple) and k[0] == 'RNG':
        t = '(map (fun k_ : nat => %s) (seq 0 (Z.to_nat %s)))' % (t, k[1])
        k = ('L', 'R')
    want = item.get('ret')
    if want:
        want = tuple(want) if isinstance(want, list) else want
        if want == 'C' and k != 'C':
            t, k = tr.toC(t, k), 'C'
        elif want == 'R' and k == 'I':
            t, k = tr.toR(t, k), 'R'
        if isinstance(want, str) and want != k:
            raise Fail('result kind %s, contract says %s' % (k, want))
    ps = ' '.join('(%s : %s)' % (c, coq_type(kd)) for c, kd in params)
    out = 'Definition %s %s : %s :=\n    %s.\n' % (item['name'], ps, coq_type(k), t)
    for i, pn in enumerate(item.get('projections', [])):
        n = len(item['projections'])
        pat = ', '.join('p%d' % j for j in range(n))
        args = ' '.join(c for c, _ in params)
        out += 'Definition %s %s := let \'(%s) := %s %s in p%d.\n' % (pn, ps, pat, item['name'], args, i)
    return out

def load_contract():
    here = os.path.dirname(os.path.abspath(__file__))
    with open(os.path.join(here, 'contract.json')) as f:
        return json.load(f)

def main():
    contract = load_contract()
    trees = {}
    status = {}
    srcsha = {}
    for fnm in sorted(set(i['file'] for i in contract)):
        path = os.path.join(REPO, 'mininec', fnm)
        try:
            src = open(path).read()
            trees[fnm] = ast.parse(src)
            srcsha[fnm] = hashlib.sha256(src.encode()).hexdigest()
        except Exception as e:
            trees[fnm] = None
            status['__parse__' + fnm] = 'FAIL: %s' % e
    chunks = []
    here = os.path.dirname(os.path.abspath(__file__))
    fb_path = os.path.join(here, 'extracted_fallback.json')
    fallback = json.load(open(fb_path)) if os.path.exists(fb_path) else {}
    frozen = {}
    for item in contract:
        try:
            if trees[item['file']] is None:
                raise Fail('source does not parse')
            body = translate_item(trees, item)
            frozen[item['name']] = body
            chunks.append('(* %s: %s %s *)\n' % (item['id'], item['file'], item['func']) + body)
            status[item['name']] = 'ok'
        except Fail as e:
            why = str(e).replace('*)', '* )')
            if item['name'] in fallback and not item.get('no_fallback'):
                # the source no longer has the shape the contract describes: keep the hand-kept definition (the one last
                # translated from the repaired tree); it is tied to the code by the correspondence stages that evaluate it
                # against the real function on every run, and a check that runs none of them reports the tie as broken
                chunks.append('(* %s: %s %s -- FALLBACK, not translated on this run: %s *)\n' % (item['id'], item['file'], item['func'], why)
                              + fallback[item['name']])
                status[item['name']] = 'fallback: %s' % e
            else:
                status[item['name']] = 'FAIL: %s' % e
                chunks.append('(* %s: NOT EXTRACTED: %s *)\n' % (item['id'], why))
    if '--freeze' in sys.argv:
        if any(v != 'ok' for v in status.values()):
            print('translate: refusing to freeze, not every item translates'); return 1
        with open(fb_path, 'w') as f:
            json.dump(frozen, f, indent=1, sort_keys=True)
        print('translate: froze %d definitions' % len(frozen))
    text = ('(* GENERATED by py/translate.py from %s/mininec -- do not edit *)\n'
            'From Coq Require Import ZArith List Bool.\n'
            'From PM Require Import Base.Num Base.Cplx Base.NumpyLib.\n'
            'Import ListNotations.\n'
            'Section Extracted.\nContext {N : Num}.\n\n' % REPO
            + '\n'.join(chunks) + '\nEnd Extracted.\n')
    os.makedirs(OUT, exist_ok=True)
    target = os.path.join(OUT, 'Extracted.v')
    old = open(target).read() if os.path.exists(target) else None
    if old != text:
        with open(target, 'w') as f:
            f.write(text)
    with open(os.path.join(OUT, 'extracted_status.json'), 'w') as f:
        json.dump({'status': status, 'sources': srcsha}, f, indent=1, sort_keys=True)
    bad = {k: v for k, v in status.items() if v != 'ok' and not v.startswith('fallback')}
    for k, v in bad.items():
        print('translate: %s: %s' % (k, v))
    return 1 if bad else 0

if __name__ == '__main__':
    sys.exit(main())
