"""Correspondence stage `main` (C20): every (stage, exception kind) row of
Model/Main.v is provoked through the real main by a command line; the real
ending (diagnostic / report / uncaught) must be what the model's table says."""
import re, os, json
from vlib import *

HEADER = '''From Coq Require Import List Bool Arith.
Import ListNotations.
From PM Require Import Model.Main.
Set Printing Depth 10000000.
Definition row (k : nat) (e : exn) : nat :=
  match run stages (fun j => if Nat.eqb j k then Some e else None) with Report => 0 | Diag _ => 1 | Uncaught _ _ => 2 end.
'''
W = ['-w', '5,0,0,5,0,0,15,0.001', '--excitation-pulse=3']
# (stage, kind, argv): a command line that makes the operations of that stage raise that kind
ROWS = [
    (0, None, ['-f', '0']), (0, None, ['-f', 'nan']), (0, None, ['-f', '1e200']), (0, None, ['--ff-power=-1']),
    (1, 'EValue', ['-a', '2,1,0,90,0.001']), (1, 'EValue', ['-a', '4,nan,0,90,0.001']),
    (2, 'EValue', ['-H', '2,1,0.5,0.001,0.1,0.1']),
    (3, 'EValue', ['-w', '0,0,0,0,1,0,0,0.001']), (3, 'EValue', ['-w', '3,0,0,0,0,0,0,0.001']), (3, 'EValue', ['-w', '3,0,0,0,inf,0,0,0.001']),
    (4, 'EValue', ['-w', '1,3,0,0,0,1,0,0,0.001', '-w', '1,3,0,0,1,1,0,1,0.001']),
    (5, 'EValue', W + ['--geo-rotate=1,x,0,0']), (5, 'EValue', W + ['--geo-translate=1,0,nan,0']),
    (6, 'EKey', W + ['--geo-rotate=1,0,0,10,99']),
    (7, 'EKey', W + ['--geo-scale=2,99']), (7, 'EValue', W + ['--geo-scale=0']), (7, 'EValue', W + ['--geo-scale=-1']),
    (8, 'EKey', W + ['--taper-wire=99,1']), (8, 'EValue', W + ['--taper-wire=1,x']),
    (9, 'EValue', W + ['--medium=1,0,0']), (9, 'EValue', W + ['--medium=0,0,0', '--radial-count=4', '--radial-radius=0.001']), (9, 'EValue', W + ['--medium=nan,1,0']),
    (10, 'EValue', ['-w', '5,0,0,-1,0,0,1,0.001', '--medium=0,0,0', '--excitation-pulse=3']),
    (10, 'EAssert', W + ['--geo-scale=1e-320']),
    (11, 'EValue', ['-w', '5,0,0,5,0,0,15,0.001', '--excitation-pulse=9']),
    (12, 'EValue', W + ['--rlc-load=x', '--attach-load=1,1']), (12, 'EValue', W + ['--load=nan', '--attach-load=1,1']),
    (12, 'EValue', W + ['--laplace-load-a=1,1e308', '--laplace-load-b=1', '--attach-load=1,1']),
    (13, 'EValue', W + ['--load=5', '--attach-load=1,99']),
    (13, 'EValue', ['-w', '10,0,0,0,0,0,10,0.01', '-w', '4,0,0,10,5,0,10,0.01', '--excitation-pulse=3', '--load=5', '--attach-load=1,7,2']),
    (13, 'EValue', ['-w', '10,0,0,0,0,0,10,0.01', '-w', '4,0,0,10,5,0,10,0.01', '--excitation-pulse=3', '--load=5', '--attach-load=1,0,2']),
    (11, 'EValue', ['-w', '10,0,0,0,0,0,10,0.01', '-w', '4,0,0,10,5,0,10,0.01', '--excitation-pulse=7,2']),
    (11, 'EValue', ['-w', '10,0,0,0,0,0,10,0.01', '-w', '4,0,0,10,5,0,10,0.01', '--excitation-pulse=2,9']), (13, 'EKey', W + ['--load=5', '--attach-load=1,all,99']),
    (14, 'EKey', W + ['--skin-effect-conductivity=1e6,99']), (14, 'EValue', W + ['--skin-effect-resistivity=0']), (14, 'EValue', W + ['--skin-effect-conductivity=nan']),
    (15, 'EKey', W + ['--insulation-load=0.01,2,99']), (15, 'EValue', W + ['--insulation-load=0.0001,2']), (15, 'EValue', W + ['--insulation-load=0.01,0']),
    (16, 'EValue', W + ['--theta=0,x,3']), (16, 'EValue', W + ['--phi=0,10,1.5']),
    (17, 'EValue', W + ['--near-field=1,1,1,1,1,1,x,1,1']),
    (19, 'ELinAlg', ['-w', '5,0,0,0,1,0,0,0.001', '-w', '5,0,0,0,1,0,0,0.001', '--excitation-pulse=2']),
    (19, 'EFloat', W + ['--excitation-voltage=0']),
    (19, 'EMemory', ['-w', '200000,0,0,0,1,0,0,0.000001', '--excitation-pulse=2']),
    (20, 'EFloat', W + ['--ff-distance=1e-320', '--option=far-field-absolute']),
    (20, 'EValue', W + ['--near-field=1,1,1,1e308,1,1,3,1,1']),
    (20, 'EFloat', ['-w', '10,0,-5,0,0,5,0,0.001', '--phi=0,0,1', '--theta=0,10,3', '--ff-distance=1e-300', '--ff-power=1e300', '--option=far-field-absolute']),
    (12, 'EValue', W + ['--laplace-load-a=' + ','.join(['1'] * 60), '--laplace-load-b=1', '--attach-load=1,all']),
    (0, None, W + ['--frequency-steps=' + '9' * 400, '--frequency-increment=1']),
    # a downward sweep that reaches 0 MHz or goes below it, an upward one that leaves the accepted range
    (0, None, W + ['-f', '7', '--frequency-increment=-3.5', '--frequency-steps=3']),
    (0, None, W + ['-f', '7', '--frequency-increment=-2', '--frequency-steps=5']),
    (0, None, W + ['-f', '1e149', '--frequency-increment=9e149', '--frequency-steps=2']),
    (18, 'EOs', W + ['--output-cmdline=/nonexistent-dir/x.pym']),
    # the output path is a directory / lies below a regular file: other members of the OSError family
    (18, 'EOs', W + ['--output-cmdline=/']), (18, 'EOs', W + ['--output-cmdline=/etc/hostname/x.pym']),
    (18, 'EOs', W + ['--output-basic-input=/']), (18, 'EOs', W + ['--output-cmdline=' + 'x' * 5000]),
    (18, 'ENotImpl', W + ['--load=5', '--rlc-load=1,1e-6,', '--attach-load=1,1', '--attach-load=2,2', '--output-basic-input=/nonexistent-dir/x.mini']),
    (18, 'ENotImpl', W + ['--load=5', '--rlc-load=1,1e-6,', '--attach-load=2,2', '--attach-load=1,1', '--output-basic-input=/nonexistent-dir/x.mini']),
    (18, 'ENotImpl', W + ['--rlc-load=1,1e-6,', '--attach-load=1,2', '--skin-effect-conductivity=1e6', '--output-basic-input=/nonexistent-dir/x.mini']),
    (18, 'ENotImpl', W + ['--trap-load=1,1e-6,1e-9', '--attach-load=1,2', '--insulation-load=0.002,2.5', '--output-basic-input=/nonexistent-dir/x.mini']),
    # a sweep that succeeds at its first step and fails later: still only the diagnostic
    (19, 'EFloat', ['-f', '7.5', '--frequency-steps=2', '--frequency-increment=-1', '--load=-70', '--attach-load=1,5']),
    (20, 'EFloat', ['-f', '7.5', '--frequency-steps=2', '--frequency-increment=-1', '--option=far-field-absolute', '--ff-distance=1e-320']),
    (21, None, W),
]

def run_rows(chk):
    from concurrent.futures import ThreadPoolExecutor
    cases = [dict(id=i, seed=0, argv=a, what=['row']) for i, (st, kd, a) in enumerate(ROWS)]
    shards = [cases[k::NCPU] for k in range(NCPU) if cases[k::NCPU]]
    res = run_workers('mainf.c20', [dict(cases=s) for s in shards])
    real = {}
    for ok, r in res:
        if not ok:
            chk.tie_broken('correspondence', 'main', 'real code could not be run: ' + str(r)[-600:]); continue
        for x in r['results']:
            real[x['id']] = x
    if not vo_ok('Model/Main.v'):
        chk.tie_broken('correspondence', 'main', 'model (Model/Main.v) does not compile'); return
    body = HEADER + 'Eval vm_compute in [%s].\n' % '; '.join('row %d %s' % (st, kd) for st, kd, a in ROWS if kd)
    rc, out = coq_eval('main_%d' % os.getpid(), body)
    m = re.search(r'(?s)=\s*\[(.*?)\]\s*:\s*list nat', out)
    if rc != 0 or not m:
        chk.tie_broken('correspondence', 'main', 'model evaluation failed: ' + out[-400:]); return
    model = [int(x) for x in re.findall(r'\d+', m.group(1))]
    it = iter(model); nbad = 0
    for i, (st, kd, a) in enumerate(ROWS):
        want = {0: 'report', 1: 'diag', 2: 'uncaught'}[next(it)] if kd else ('report' if st == 21 else 'diag')
        x = real.get(i)
        if x is None or 'error' in x:
            chk.tie_broken('correspondence', 'main', 'row %d could not be run' % i); continue
        got = x['outcome']['kind']
        chk.add_case('row:%d' % i, True, sample=dict(stage=st, kind=kd, outcome=got))
        if got not in ('report', 'diag', 'usage', 'timeout'):
            # the row input itself violates the property
            o = x['outcome']
            if got == 'uncaught':
                sig = dict(stage='c20-oracle', exception=o['error']['exception'], raised_in=o['error']['raised_in'])
                det = 'uncaught %s in %s: %s' % (o['error']['exception'], o['error']['raised_in'], o['error']['message'][:200])
            else:
                sig = dict(stage='c20-oracle', kind=got); det = '%s: %s' % (got, o.get('detail'))
            chk.violation(sig, det, dict(argv=a, mutations=['row %d' % i]))
        if got != want:
            nbad += 1
            chk.tie_broken('correspondence', 'main', 'stage %d, %s: %r ends as %s (%s), the model says %s' % (
                st, kd, a, got, str(x['outcome'].get('error') or x['outcome'].get('detail'))[:200], want))
    chk.stages['main'] = dict(rows=len(ROWS), disagreements=nbad)

SITES_HEADER = '''From Coq Require Import ZArith List Bool.
Import ListNotations.
From PM Require Import Model.Main Gen.MainFlow.
Set Printing Depth 10000000. Set Printing Width 1000000.
Definition esc (s : site) := filter (fun e => negb (site_caught s e)) (prim_raises (s_prim s)).
Eval vm_compute in (length main_sites, map (fun s => (s_line s, s_prim s, esc s)) (filter (fun s => negb (site_safe s)) main_sites)).
'''
def unsafe_sites(chk):
    """Evaluate the regenerated flow in Coq: number of sites, and the sites at which a kind of exception the primitive
    can raise is not turned into the diagnostic (named in the replay when the site theorem no longer checks)."""
    if not vo_ok('Gen/MainFlow.v'):
        chk.stages['flow'] = dict(sites=0, note='Gen/MainFlow.v does not compile (translator failed closed)'); return
    rc, out = coq_eval('flow_%d' % os.getpid(), SITES_HEADER)
    m = re.search(r'(?s)=\s*\((\d+)%?\w*,\s*(\[.*\])\)\s*:', out)
    if rc != 0 or not m:
        chk.tie_broken('correspondence', 'flow', 'flow evaluation failed: ' + out[-400:]); return
    n = int(m.group(1)); bad = re.findall(r'\((\d+)%?Z?, (\w+), \[([^\]]*)\]\)', m.group(2))
    chk.stages['flow'] = dict(sites=n, unsafe=[dict(line=int(a), prim=b, escaping=c) for a, b, c in bad])
    for a, b, c in bad:
        chk.tie_broken('theorem', 'C20_no_site_escapes', 'mininec.py line %s: %s can raise %s, which no try statement around it turns into the diagnostic' % (a, b, c))
