"""Correspondence stage `lin`: Model.Solve (rhs_vec, load_matrix, source data)
evaluated by coqc on the real code's Z0 / sources / loads, compared with the
real code's rhs, Z, currents (as certificate), impedances and powers."""
import random, re, json, os
from vlib import *
import gen

HEADER = '''From Coq Require Import ZArith List Bool PrimFloat.
Import ListNotations.
From PM Require Import Base.Num Base.FNum Base.Cplx Gen.Extracted Model.Solve Corr.LinDriver.
Set Printing Depth 10000000.
Set Printing Width 200.
Local Notation S := (@mkSource FNum).
Local Notation L := (@mkLoad FNum).
'''
def cx(h):
    return '(%s, %s)' % (fhex(float.fromhex(h[0])), fhex(float.fromhex(h[1])))

def coq_case(o):
    Z0 = coq_list([coq_list([cx(v) for v in row]) for row in o['Z0']])
    Z = coq_list([coq_list([cx(v) for v in row]) for row in o['Z']])
    rhs = coq_list([cx(v) for v in o['rhs']])
    cur = coq_list([cx(v) for v in o['cur']])
    gnd = coq_list(['true' if g else 'false' for g in o['gnd']])
    srcs = coq_list(['S %d %s' % (s['idx'], cx(s['v'])) for s in o['sources']])
    loads = coq_list(['L %d %s' % (a[0], cx(a[1])) for a in o['att']])
    return 'Eval vm_compute in (lin_metrics %s %s %s %s %s %s %s %s %s).' % (
        fhex(float.fromhex(o['m'])), gnd, 'true' if o['has_media'] else 'false', Z0, Z, rhs, cur, srcs, loads)

def gen_cases(rng, n, grounds=(None, None, 'ideal', 'ideal', 'real')):
    cases = []
    for i in range(n):
        g = rng.choice(grounds)
        cases.append(dict(id=i, seed=rng.randrange(10 ** 9), spec=gen.gen_antenna(rng, ground=g)))
    return cases

def run_stage(chk, rng, ncases, tol=1e-9):
    """Returns list of (case, obs, metrics-or-None)."""
    cases = gen_cases(rng, ncases)
    shards = [cases[k::NCPU] for k in range(NCPU) if cases[k::NCPU]]
    res = run_workers('lin', [dict(cases=s) for s in shards])
    results = []
    for ok, r in res:
        if not ok:
            chk.tie_broken('correspondence', 'lin', 'real code could not be run: ' + str(r)[-800:])
            continue
        results += r['results']
    results.sort(key=lambda r: r['id'])
    good = [r for r in results if 'obs' in r]
    errs = [r for r in results if 'error' in r]
    model_ok = all(vo_ok(f) for f in ('Corr/LinDriver.v', 'Model/Solve.v', 'Gen/Extracted.v'))
    metrics = {}
    if model_ok and good:
        per = max(1, (len(good) + NCPU - 1) // NCPU)
        groups = [good[k:k + per] for k in range(0, len(good), per)]
        jobs = [('lin_%d_%d' % (os.getpid(), gi), HEADER + '\n'.join(coq_case(r['obs']) for r in g) + '\n')
                for gi, g in enumerate(groups)]
        outs = coq_evals(jobs)
        for g, (rc, out) in zip(groups, outs):
            blocks = re.findall(r'(?s)=\s*(\[.*?\])\s*:\s*list float', out)
            if rc != 0 or len(blocks) != len(g):
                chk.tie_broken('correspondence', 'lin', 'model evaluation failed: ' + out[-600:])
                continue
            for r, b in zip(g, blocks):
                metrics[r['id']] = parse_floats(b)
    elif not model_ok:
        chk.tie_broken('correspondence', 'lin', 'model (Model/Solve.v, Corr/LinDriver.v) does not compile')
    out = []
    nbad = 0
    for r in good:
        o = r['obs']
        mt = metrics.get(r['id'])
        out.append((r, o, mt))
        if mt is None:
            continue
        d_rhs, s_rhs, d_Z, s_Z, resid, ptot = mt[:6]
        per_src = mt[6:]
        bad = []
        if not d_rhs <= tol * max(s_rhs, 1e-300):
            bad.append('rhs differs from rhs_vec by %.3g (scale %.3g)' % (d_rhs, s_rhs))
        if not d_Z <= tol * max(s_Z, 1e-300):
            bad.append('Z after loads differs from load_matrix by %.3g (scale %.3g)' % (d_Z, s_Z))
        if not resid <= 1e-9 * max(o['cond'], 1.0) * max(s_rhs, 1e-300):
            bad.append('currents do not solve Z I = rhs: residual %.3g (cond %.3g)' % (resid, o['cond']))
        for k, s in enumerate(o['sources']):
            zi = complex(per_src[3 * k], per_src[3 * k + 1]); pw = per_src[3 * k + 2]
            zr = complex(float.fromhex(s['imp'][0]), float.fromhex(s['imp'][1]))
            pr = float.fromhex(s['pwr'])
            if not abs(zi - zr) <= 1e-9 * max(abs(zr), 1e-300):
                bad.append('source %d impedance %r vs model %r' % (k, zr, zi))
            sc = abs(complex(*[float.fromhex(x) for x in s['v']])) * abs(complex(*[float.fromhex(x) for x in s['cur']]))
            if not abs(pw - pr) <= 1e-9 * max(sc, 1e-300):
                bad.append('source %d power %r vs model %r' % (k, pr, pw))
        pt = float.fromhex(o['power'])
        scp = sum(abs(float.fromhex(s['pwr'])) for s in o['sources']) + 1e-300
        if not abs(ptot - pt) <= 1e-9 * scp:
            bad.append('total power %r vs model %r' % (pt, ptot))
        if bad:
            nbad += 1
            chk.tie_broken('correspondence', 'lin', 'case %d (%s): %s' % (r['id'], r['spec']['family'], '; '.join(bad[:3])))
    chk.stages['lin'] = dict(cases=len(cases), real_ok=len(good), real_errors=len(errs),
                             compared=len(metrics), disagreements=nbad)
    return out, errs
